// Package verifrt is the runtime of the verification seams. It is copied into
// a throw-away copy of the repository by /verif/lib/build.sh; it is not part
// of paulmach/orb. With no hook installed every function is a load and a
// branch, and map loops run in Go's own (random) order.
package verifrt

import (
	"fmt"
	"sort"
	"sync"
)

// CounterOnlyFields lists "pkgpath.Type.field" of integer struct fields that
// library code only ever increments or returns from a getter (filled in by a
// generated file, see instr's writeCounterFields).
var CounterOnlyFields map[string]bool

// YieldHook, when set, is called at every instrumented scheduling point.
var YieldHook func(site int)

// SpinSite is the site id reported by a lock-acquisition retry: the scheduler
// must let somebody else run.
const SpinSite = -1000

// Yield is inserted before statements of instrumented packages.
func Yield(site int) {
	if h := YieldHook; h != nil {
		h(site)
	}
}

// SpinYield is the body of a rewritten Lock(): `for !mu.TryLock() { SpinYield() }`.
func SpinYield() {
	if h := YieldHook; h != nil {
		h(SpinSite)
	}
}

// MapHook decides map iteration. Order returns the visiting order of n keys
// (given in canonical order) as a permutation of [0,n). Created is asked for
// each key created while the loop runs: produce it or not, and if so at which
// of the remaining positions [0,remaining].
type MapHook interface {
	Order(site int, where string, n int) []int
	Created(site int, where string, remaining int) (produce bool, at int)
}

// Hook is the installed map hook (nil: Go semantics with Go's own order).
var Hook MapHook

// MapIter is the untyped half of a generated map iterator. It implements the
// language semantics of `range` over a map, not the runtime's: the key set is
// snapshotted at loop entry, keys deleted before they are reached are skipped
// (by the typed half), the value is read when the key is visited, and a key
// created during the loop may or may not be produced.
type MapIter struct {
	site  int
	where string
	keys  []interface{}
	pos   int
	seen  map[interface{}]struct{}
	// Len is the map length the iterator last looked at.
	Len int
}

func canon(keys []interface{}) {
	if len(keys) < 2 {
		return
	}
	r := make([]string, len(keys))
	for i, k := range keys {
		r[i] = fmt.Sprintf("%#v", k)
	}
	sort.Sort(&byRender{keys, r})
}

type byRender struct {
	k []interface{}
	r []string
}

func (b *byRender) Len() int           { return len(b.k) }
func (b *byRender) Less(i, j int) bool { return b.r[i] < b.r[j] }
func (b *byRender) Swap(i, j int) {
	b.k[i], b.k[j] = b.k[j], b.k[i]
	b.r[i], b.r[j] = b.r[j], b.r[i]
}

// Init receives the snapshot of the keys (in Go's order).
func (it *MapIter) Init(site int, where string, keys []interface{}) {
	it.site, it.where, it.Len = site, where, len(keys)
	h := Hook
	if h == nil || len(keys) < 2 {
		if h != nil {
			canon(keys)
		}
		it.keys = keys
		return
	}
	canon(keys)
	order := h.Order(site, where, len(keys))
	out := make([]interface{}, 0, len(keys))
	used := make([]bool, len(keys))
	for _, i := range order {
		if i >= 0 && i < len(keys) && !used[i] {
			used[i] = true
			out = append(out, keys[i])
		}
	}
	for i, k := range keys { // a hook that returns a partial order still visits everything
		if !used[i] {
			out = append(out, k)
		}
	}
	it.keys = out
}

// Seen reports whether k was in the snapshot or has been dealt with since.
func (it *MapIter) Seen(k interface{}) bool {
	if it.seen == nil {
		it.seen = make(map[interface{}]struct{}, len(it.keys))
		for _, x := range it.keys {
			it.seen[x] = struct{}{}
		}
	}
	_, ok := it.seen[k]
	return ok
}

// Created handles keys that appeared in the map since the last look.
func (it *MapIter) Created(fresh []interface{}, newLen int) {
	it.Len = newLen
	if len(fresh) == 0 {
		return
	}
	it.Seen(fresh[0]) // make sure the set exists
	h := Hook
	if h != nil {
		canon(fresh)
	}
	for _, k := range fresh {
		it.seen[k] = struct{}{}
		if h == nil {
			continue // never produced: allowed by the language
		}
		remaining := len(it.keys) - it.pos
		produce, at := h.Created(it.site, it.where, remaining)
		if !produce {
			continue
		}
		if at < 0 {
			at = 0
		}
		if at > remaining {
			at = remaining
		}
		i := it.pos + at
		it.keys = append(it.keys, nil)
		copy(it.keys[i+1:], it.keys[i:])
		it.keys[i] = k
	}
}

// Next returns the next key of the order.
func (it *MapIter) Next() (interface{}, bool) {
	if it.pos >= len(it.keys) {
		return nil, false
	}
	k := it.keys[it.pos]
	it.pos++
	return k, true
}

// ---- sync.Pool seam. Whether Get hands back a pooled object or a fresh one
// depends on the garbage collector and on which P a goroutine runs on; under
// simulation that is a choice of the run, not of the Go runtime. With no hook
// installed the real pool is used.

// PoolHook decides, for a Get on a pool that holds n objects, whether one of
// them is reused (true) or a fresh object is made (false).
var PoolHook func(n int) bool

var pools = map[*sync.Pool][]interface{}{}

// ResetPools empties the simulated pools (called at the start of a run).
func ResetPools() {
	if len(pools) > 0 {
		pools = map[*sync.Pool][]interface{}{}
	}
}

// PoolGet replaces p.Get() in instrumented packages.
func PoolGet(p *sync.Pool) interface{} {
	h := PoolHook
	if h == nil {
		return p.Get()
	}
	if items := pools[p]; len(items) > 0 && h(len(items)) {
		x := items[len(items)-1]
		pools[p] = items[:len(items)-1]
		return x
	}
	if p.New != nil {
		return p.New()
	}
	return nil
}

// PoolPut replaces p.Put(x) in instrumented packages.
func PoolPut(p *sync.Pool, x interface{}) {
	if PoolHook == nil {
		p.Put(x)
		return
	}
	pools[p] = append(pools[p], x)
}
