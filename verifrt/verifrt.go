// Package verifrt is the runtime of the verification seams. It is copied into
// a throw-away copy of the repository by /verif/lib/build.sh; it is not part
// of paulmach/orb. With no hook installed every function is a load and a branch.
package verifrt

// YieldHook, when set, is called at every instrumented scheduling point.
var YieldHook func(site int)

// Yield is inserted before statements of instrumented packages.
func Yield(site int) {
	if h := YieldHook; h != nil {
		h(site)
	}
}
