#!/bin/bash
# build.sh <scratch-dir> <variant>...   variants: plain instr race
# Snapshots /repo's working tree into <scratch-dir>, adds the verifrt runtime,
# instruments a second copy when asked, and builds orbsim-<variant> binaries
# into <scratch-dir>/bin. Everything lives in the scratch dir.
set -euo pipefail
S="$1"; shift
VERIF="${VERIF_DIR:-/verif}"
REPO="${REPO_DIR:-/repo}"
export GOFLAGS=-mod=mod GOPROXY=off GOSUMDB=off GOTOOLCHAIN=local CGO_ENABLED=1
mkdir -p "$S/bin"
snapshot() { # $1 = dest
  rsync -a --delete --exclude .git "$REPO/" "$1/"
  mkdir -p "$1/verifrt"
  cp "$VERIF"/verifrt/*.go "$1/verifrt/"
  # static analysis only: which integer fields are pure usage counters (verifrt/zz_fields.go)
  "$VERIF/bin/instr" -analyze -dir "$1"
}
mkmod() { # $1 = name, $2 = repo copy
  sed "s#=> /repo#=> $2#" "$VERIF/sim/go.mod" > "$S/$1.mod"
  cp "$REPO/go.sum" "$S/$1.sum"
}
for v in "$@"; do
  case "$v" in
    plain)
      [ -d "$S/repo" ] || snapshot "$S/repo"
      mkmod plain "$S/repo"
      (cd "$VERIF/sim" && go build -ldflags "-X verif/sim/props.Variant=plain" -modfile="$S/plain.mod" -o "$S/bin/orbsim-plain" ./cmd/orbsim)
      ;;
    race)
      [ -d "$S/repo" ] || snapshot "$S/repo"
      mkmod race "$S/repo"
      (cd "$VERIF/sim" && go build -race -ldflags "-X verif/sim/props.Variant=race" -modfile="$S/race.mod" -o "$S/bin/orbsim-race" ./cmd/orbsim)
      ;;
    instr)
      snapshot "$S/repo-instr"
      "$VERIF/bin/instr" -dir "$S/repo-instr" -report "$S/instr-report.json"
      mkmod instr "$S/repo-instr"
      (cd "$VERIF/sim" && go build -ldflags "-X verif/sim/props.Variant=instr" -modfile="$S/instr.mod" -o "$S/bin/orbsim-instr" ./cmd/orbsim)
      ;;
    *) echo "unknown variant $v" >&2; exit 2;;
  esac
done
