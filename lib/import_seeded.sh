#!/bin/bash
# import_seeded.sh <mutant-dir> <seeded-name>
# Confirms a seeded change independently in a scratch worktree of /repo:
#  1. the patch applies to the current HEAD, the tree builds and the existing test suite passes with it
#  2. the demonstration fails with the patch and passes without it
# then stores it as /verif/seeded/<name>/ (patch.diff, demo, meta.json with what was run). Nothing touches /repo's working tree.
set -uo pipefail
src="$1"; name="$2"
export GOFLAGS=-mod=mod GOPROXY=off GOSUMDB=off GOTOOLCHAIN=local
W="$(mktemp -d /tmp/seedchk.XXXXXX)"
cleanup() { git -C /repo worktree remove --force "$W/wt" >/dev/null 2>&1; rm -rf "$W"; }
trap cleanup EXIT
git -C /repo worktree add --detach "$W/wt" HEAD >/dev/null 2>&1 || { echo "$name: cannot create worktree"; exit 2; }
cd "$W/wt"
demo="$(ls "$src" | grep -E '_test\.go$|^main\.go$|^demo.*\.go$' | head -1)"
[ -n "$demo" ] || { echo "$name: no demonstration file"; exit 1; }
# where does the demo go? first comment lines name the directory; fall back to the package clause
pkgdir="$(grep -m1 -oE '(encoding|geojson|quadtree|maptile|planar|clip|simplify|geo|project|resample|internal)[A-Za-z0-9_/]*' "$src/$demo" | head -1)"
pkg="$(grep -m1 '^package ' "$src/$demo" | awk '{print $2}')"
place() { # find a directory whose package name matches
  for d in "$pkgdir" $(git ls-files '*.go' | xargs -n1 dirname | sort -u); do
    [ -d "$d" ] || continue
    p="$(grep -h -m1 '^package ' "$d"/*.go 2>/dev/null | grep -v _test | head -1 | awk '{print $2}')"
    if [ "$p" = "$pkg" ] || [ "${p}_test" = "$pkg" ]; then echo "$d"; return; fi
  done
}
dir="$(place)"
[ -n "$dir" ] || { echo "$name: cannot place demo (package $pkg)"; exit 1; }
run_demo() { cp "$src/$demo" "$dir/zz_seeded_demo_test.go"; timeout 600 go test -count=1 ${DEMO_FLAGS:-} "./$dir/" -run . >"$W/demo.$1.log" 2>&1; r=$?; rm -f "$dir/zz_seeded_demo_test.go"; return $r; }
# demo on the clean tree must pass
run_demo clean; clean_rc=$?
git apply "$src/patch.diff" || { echo "$name: patch does not apply"; exit 1; }
go build ./... >"$W/build.log" 2>&1 || { echo "$name: does not build"; exit 1; }
timeout 1500 go test -count=1 ./... >"$W/suite.log" 2>&1; suite_rc=$?
run_demo patched; patched_rc=$?
if [ $patched_rc = 0 ] && grep -qi race "$src/meta.json"; then DEMO_FLAGS=-race; run_demo patched-race; patched_rc=$?; git checkout -q -- . ; DEMO_FLAGS=-race run_demo clean-race; clean_rc=$?; git apply "$src/patch.diff"; fi
echo "$name: suite_rc=$suite_rc demo_clean_rc=$clean_rc demo_patched_rc=$patched_rc (demo $demo in $dir ${DEMO_FLAGS:-})"
if [ $suite_rc != 0 ]; then grep -E "^(FAIL|---)" "$W/suite.log" | head -5; fi
if [ $suite_rc = 0 ] && [ $clean_rc = 0 ] && [ $patched_rc != 0 ]; then
  mkdir -p "/verif/seeded/$name"
  cp "$src/patch.diff" "/verif/seeded/$name/patch.diff"
  cp "$src/$demo" "/verif/seeded/$name/$demo"
  jq --arg ran "confirmed independently in a scratch worktree of /repo HEAD $(git -C /repo log --format=%h -1): git apply ok; go build ./... ok; go test -count=1 ./... passes with the change; demonstration $demo placed in $dir ${DEMO_FLAGS:-} fails with the change (exit $patched_rc) and passes without it" \
     --arg dir "$dir" '. + {confirmed: $ran, demo_dir: $dir}' "$src/meta.json" > "/verif/seeded/$name/meta.json" 2>/dev/null || cp "$src/meta.json" "/verif/seeded/$name/meta.json"
  echo "$name: KEPT"
else
  echo "$name: REJECTED"; tail -5 "$W/demo.patched.log" 2>/dev/null | cut -c1-200
fi
