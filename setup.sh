#!/bin/bash
# setup_cmd: builds the parts of the framework that do not depend on /repo's
# working tree (the source instrumenter). Offline; module cache only.
set -euo pipefail
VERIF="$(cd "$(dirname "$0")" && pwd)"
export GOFLAGS=-mod=mod GOPROXY=off GOSUMDB=off GOTOOLCHAIN=local
mkdir -p "$VERIF/bin" "$VERIF/evidence" "$VERIF/replays"
if [ -f "$VERIF/instr/main.go" ]; then
  (cd "$VERIF/instr" && go build -o "$VERIF/bin/instr" .)
fi
echo "setup ok"
