// Package simdb is a stub database/sql driver: the real database/sql package
// sits between orb's Valuer/Scanner and this one-cell "table". What the
// driver hands back for the stored value — framing, NULL, a wrong Go type,
// and what it does to the row buffer afterwards — is set per query by the
// simulation.
package simdb

import (
	"database/sql"
	"database/sql/driver"
	"encoding/binary"
	"encoding/hex"
	"errors"
	"io"
	"strings"
)

// Framing of the value handed to the scanner.
const (
	Raw = iota
	HexLower
	HexUpper
	BackslashX
	PrefixSRID // 4-byte little-endian SRID, then the stored bytes (MySQL's internal format)
	NumFramings
)

var FramingNames = [...]string{"raw", "hex", "HEX", "\\x-hex", "srid-prefix"}

// State is the behaviour of the next query; the simulation sets it directly
// (runs are sequential within a process and the pool has one connection).
type State struct {
	Cell        []byte   // stored value (nil = NULL)
	Cells       [][]byte // every argument of the last Exec
	HasCell     bool
	Framing     int
	PrefixSRID  uint32
	ReturnNull  bool // hand back NULL whatever is stored
	WrongType   bool // hand back a string instead of []byte
	ReuseBuffer bool // overwrite the row buffer once the row is released
	LastBuf     []byte
	Execs       int
	Queries     int
}

// S is the driver state.
var S State

type drv struct{}
type conn struct{}
type stmt struct{ query string }
type rows struct {
	done bool
	buf  []byte
}
type result struct{}

func (drv) Open(string) (driver.Conn, error) { return conn{}, nil }

func (conn) Prepare(q string) (driver.Stmt, error) { return stmt{q}, nil }
func (conn) Close() error                          { return nil }
func (conn) Begin() (driver.Tx, error)             { return nil, errors.New("simdb: no transactions") }

func (stmt) Close() error  { return nil }
func (stmt) NumInput() int { return -1 }

func (s stmt) Exec(args []driver.Value) (driver.Result, error) {
	S.Execs++
	S.Cells = nil
	for _, a := range args {
		// every argument is stored; the first one is also "the cell" queries return
		switch v := a.(type) {
		case nil:
			S.Cells = append(S.Cells, nil)
		case []byte:
			S.Cells = append(S.Cells, append([]byte{}, v...))
		default:
			return nil, errors.New("simdb: argument must be []byte or nil")
		}
	}
	if len(args) < 1 {
		return nil, errors.New("simdb: at least one argument expected")
	}
	switch v := args[0].(type) {
	case nil:
		S.Cell, S.HasCell = nil, true
	case []byte:
		S.Cell, S.HasCell = append([]byte{}, v...), true
	default:
		return nil, errors.New("simdb: argument must be []byte or nil")
	}
	return result{}, nil
}

func (s stmt) Query(args []driver.Value) (driver.Rows, error) {
	S.Queries++
	return &rows{}, nil
}

func (result) LastInsertId() (int64, error) { return 0, nil }
func (result) RowsAffected() (int64, error) { return 1, nil }

func (r *rows) Columns() []string { return []string{"g"} }

func (r *rows) Close() error {
	if S.ReuseBuffer && r.buf != nil {
		// the driver owns the memory it handed out and may reuse it now
		for i := range r.buf {
			r.buf[i] = 0xA5
		}
	}
	return nil
}

func (r *rows) Next(dest []driver.Value) error {
	if r.done {
		return io.EOF
	}
	r.done = true
	if S.ReturnNull || S.Cell == nil {
		dest[0] = nil
		return nil
	}
	var b []byte
	switch S.Framing {
	case Raw:
		b = append([]byte{}, S.Cell...)
	case HexLower:
		b = []byte(hex.EncodeToString(S.Cell))
	case HexUpper:
		b = []byte(strings.ToUpper(hex.EncodeToString(S.Cell)))
	case BackslashX:
		b = append([]byte(`\x`), hex.EncodeToString(S.Cell)...)
	case PrefixSRID:
		b = make([]byte, 4, 4+len(S.Cell))
		binary.LittleEndian.PutUint32(b, S.PrefixSRID)
		b = append(b, S.Cell...)
	}
	if S.WrongType {
		dest[0] = string(b)
		return nil
	}
	r.buf = b
	S.LastBuf = b
	dest[0] = b
	return nil
}

var db *sql.DB

// DB returns the process-wide handle (one connection).
func DB() *sql.DB {
	if db == nil {
		sql.Register("simdb", drv{})
		var err error
		db, err = sql.Open("simdb", "")
		if err != nil {
			panic(err)
		}
		db.SetMaxOpenConns(1)
		db.SetMaxIdleConns(1)
	}
	return db
}
