// Package wkbmodel is the reference model of C01, written from the property
// text: what a geometry must come back as after a WKB/EWKB round trip, and
// what a typed scanner destination must receive.
package wkbmodel

import (
	"encoding/binary"
	"fmt"
	"math"

	"github.com/paulmach/orb"
)

// Normalise returns the geometry WKB can represent for g: a ring is the
// one-ring polygon it denotes, a bound its polygon (also as members). ok is
// false when g encodes to no bytes (nil interface, nil slice).
func Normalise(g orb.Geometry) (out orb.Geometry, ok bool) {
	switch x := g.(type) {
	case nil:
		return nil, false
	case orb.Point:
		return x, true
	case orb.MultiPoint:
		if x == nil {
			return nil, false
		}
		return x, true
	case orb.LineString:
		if x == nil {
			return nil, false
		}
		return x, true
	case orb.MultiLineString:
		if x == nil {
			return nil, false
		}
		return x, true
	case orb.Polygon:
		if x == nil {
			return nil, false
		}
		return x, true
	case orb.MultiPolygon:
		if x == nil {
			return nil, false
		}
		return x, true
	case orb.Ring:
		if x == nil {
			return nil, false
		}
		return orb.Polygon{x}, true
	case orb.Bound:
		return x.ToPolygon(), true
	case orb.Collection:
		if x == nil {
			return nil, false
		}
		c := make(orb.Collection, 0, len(x))
		for _, m := range x {
			n, ok := Normalise(m)
			if !ok {
				// members are never nil in the workload; keep the shape anyway
				n = m
			}
			c = append(c, n)
		}
		return c, true
	}
	return g, true
}

func peq(a, b orb.Point) bool {
	return math.Float64bits(a[0]) == math.Float64bits(b[0]) && math.Float64bits(a[1]) == math.Float64bits(b[1])
}

func pseq(a, b []orb.Point) bool {
	if len(a) != len(b) {
		return false
	}
	for i := range a {
		if !peq(a[i], b[i]) {
			return false
		}
	}
	return true
}

// Equal is a deep comparison on kind, nesting, lengths and coordinate bits
// (NaN payloads and the sign of zero included). nil and empty slices are the
// same value: both have the kind and no coordinates.
func Equal(a, b orb.Geometry) bool {
	switch x := a.(type) {
	case nil:
		return b == nil
	case orb.Point:
		y, ok := b.(orb.Point)
		return ok && peq(x, y)
	case orb.MultiPoint:
		y, ok := b.(orb.MultiPoint)
		return ok && pseq(x, y)
	case orb.LineString:
		y, ok := b.(orb.LineString)
		return ok && pseq(x, y)
	case orb.Ring:
		y, ok := b.(orb.Ring)
		return ok && pseq(x, y)
	case orb.MultiLineString:
		y, ok := b.(orb.MultiLineString)
		if !ok || len(x) != len(y) {
			return false
		}
		for i := range x {
			if !pseq(x[i], y[i]) {
				return false
			}
		}
		return true
	case orb.Polygon:
		y, ok := b.(orb.Polygon)
		if !ok || len(x) != len(y) {
			return false
		}
		for i := range x {
			if !pseq(x[i], y[i]) {
				return false
			}
		}
		return true
	case orb.MultiPolygon:
		y, ok := b.(orb.MultiPolygon)
		if !ok || len(x) != len(y) {
			return false
		}
		for i := range x {
			if !Equal(x[i], y[i]) {
				return false
			}
		}
		return true
	case orb.Collection:
		y, ok := b.(orb.Collection)
		if !ok || len(x) != len(y) {
			return false
		}
		for i := range x {
			if !Equal(x[i], y[i]) {
				return false
			}
		}
		return true
	case orb.Bound:
		y, ok := b.(orb.Bound)
		return ok && peq(x.Min, y.Min) && peq(x.Max, y.Max)
	}
	return false
}

// Destination kinds of the SQL scanner.
const (
	DNil = iota
	DPoint
	DMultiPoint
	DLineString
	DMultiLineString
	DRing
	DPolygon
	DMultiPolygon
	DCollection
	DBound
	NumDest
)

var DestNames = [...]string{"nil", "*Point", "*MultiPoint", "*LineString", "*MultiLineString", "*Ring", "*Polygon", "*MultiPolygon", "*Collection", "*Bound"}

// NewDest returns a fresh destination pointer (nil for DNil).
func NewDest(d int) interface{} {
	switch d {
	case DPoint:
		return &orb.Point{}
	case DMultiPoint:
		return &orb.MultiPoint{}
	case DLineString:
		return &orb.LineString{}
	case DMultiLineString:
		return &orb.MultiLineString{}
	case DRing:
		return &orb.Ring{}
	case DPolygon:
		return &orb.Polygon{}
	case DMultiPolygon:
		return &orb.MultiPolygon{}
	case DCollection:
		return &orb.Collection{}
	case DBound:
		return &orb.Bound{}
	}
	return nil
}

// DestValue reads what a destination pointer holds.
func DestValue(p interface{}) orb.Geometry {
	switch x := p.(type) {
	case *orb.Point:
		return *x
	case *orb.MultiPoint:
		return *x
	case *orb.LineString:
		return *x
	case *orb.MultiLineString:
		return *x
	case *orb.Ring:
		return *x
	case *orb.Polygon:
		return *x
	case *orb.MultiPolygon:
		return *x
	case *orb.Collection:
		return *x
	case *orb.Bound:
		return *x
	}
	return nil
}

// Coerce is the documented coercion table: what scanning the (normalised)
// value v into destination d yields. wrongKind means the scanner must report
// its incorrect-geometry error.
func Coerce(d int, v orb.Geometry) (want orb.Geometry, wrongKind bool) {
	switch d {
	case DNil:
		return v, false
	case DBound:
		return v.Bound(), false // anything to its bound
	case DPoint:
		switch x := v.(type) {
		case orb.Point:
			return x, false
		case orb.MultiPoint:
			if len(x) == 1 {
				return x[0], false // one-member multi to single
			}
		}
	case DMultiPoint:
		switch x := v.(type) {
		case orb.Point:
			return orb.MultiPoint{x}, false // single to one-member multi
		case orb.MultiPoint:
			return x, false
		}
	case DLineString:
		switch x := v.(type) {
		case orb.LineString:
			return x, false
		case orb.MultiLineString:
			if len(x) == 1 {
				return x[0], false
			}
		}
	case DMultiLineString:
		switch x := v.(type) {
		case orb.LineString:
			return orb.MultiLineString{x}, false
		case orb.MultiLineString:
			return x, false
		}
	case DRing:
		if x, ok := v.(orb.Polygon); ok && len(x) == 1 {
			return x[0], false // one-ring polygon to ring
		}
	case DPolygon:
		switch x := v.(type) {
		case orb.Polygon:
			return x, false
		case orb.MultiPolygon:
			if len(x) == 1 {
				return x[0], false
			}
		}
	case DMultiPolygon:
		switch x := v.(type) {
		case orb.Polygon:
			return orb.MultiPolygon{x}, false
		case orb.MultiPolygon:
			return x, false
		}
	case DCollection:
		if x, ok := v.(orb.Collection); ok {
			return x, false
		}
	}
	return nil, true
}

// Clone is a deep copy made by the harness itself (nil slices stay nil), so
// that the model does not follow whatever an encoder does to its argument.
func Clone(g orb.Geometry) orb.Geometry {
	ps := func(x []orb.Point) []orb.Point {
		if x == nil {
			return nil
		}
		return append(make([]orb.Point, 0, len(x)), x...)
	}
	switch x := g.(type) {
	case orb.MultiPoint:
		return orb.MultiPoint(ps(x))
	case orb.LineString:
		return orb.LineString(ps(x))
	case orb.Ring:
		return orb.Ring(ps(x))
	case orb.MultiLineString:
		if x == nil {
			return x
		}
		c := make(orb.MultiLineString, len(x))
		for i := range x {
			c[i] = orb.LineString(ps(x[i]))
		}
		return c
	case orb.Polygon:
		if x == nil {
			return x
		}
		c := make(orb.Polygon, len(x))
		for i := range x {
			c[i] = orb.Ring(ps(x[i]))
		}
		return c
	case orb.MultiPolygon:
		if x == nil {
			return x
		}
		c := make(orb.MultiPolygon, len(x))
		for i := range x {
			c[i] = Clone(x[i]).(orb.Polygon)
		}
		return c
	case orb.Collection:
		if x == nil {
			return x
		}
		c := make(orb.Collection, len(x))
		for i := range x {
			c[i] = Clone(x[i])
		}
		return c
	}
	return g // nil, Point, Bound: values
}

// Encode is the harness's own (E)WKB writer: every node (the value and each
// member of a multi geometry or collection) gets the byte order little() picks
// for it, so one message may mix both - which the format allows and orb's
// encoder never produces. g must be normalised (no Ring, no Bound); the SRID
// flag and field are written on the outermost header only, and only for a
// non-zero srid.
func Encode(g orb.Geometry, srid int, little func() bool) []byte {
	var out []byte
	u32 := func(le bool, v uint32) {
		var b [4]byte
		if le {
			binary.LittleEndian.PutUint32(b[:], v)
		} else {
			binary.BigEndian.PutUint32(b[:], v)
		}
		out = append(out, b[:]...)
	}
	f64 := func(le bool, f float64) {
		var b [8]byte
		if le {
			binary.LittleEndian.PutUint64(b[:], math.Float64bits(f))
		} else {
			binary.BigEndian.PutUint64(b[:], math.Float64bits(f))
		}
		out = append(out, b[:]...)
	}
	pts := func(le bool, ps []orb.Point) {
		u32(le, uint32(len(ps)))
		for _, p := range ps {
			f64(le, p[0])
			f64(le, p[1])
		}
	}
	var node func(g orb.Geometry, srid int)
	node = func(g orb.Geometry, srid int) {
		le := little()
		header := func(typ uint32) {
			if le {
				out = append(out, 1)
			} else {
				out = append(out, 0)
			}
			if srid != 0 {
				u32(le, typ|0x20000000)
				u32(le, uint32(srid))
			} else {
				u32(le, typ)
			}
		}
		switch x := g.(type) {
		case orb.Point:
			header(1)
			f64(le, x[0])
			f64(le, x[1])
		case orb.LineString:
			header(2)
			pts(le, x)
		case orb.Polygon:
			header(3)
			u32(le, uint32(len(x)))
			for _, r := range x {
				pts(le, r)
			}
		case orb.MultiPoint:
			header(4)
			u32(le, uint32(len(x)))
			for _, p := range x {
				node(p, 0)
			}
		case orb.MultiLineString:
			header(5)
			u32(le, uint32(len(x)))
			for _, l := range x {
				node(l, 0)
			}
		case orb.MultiPolygon:
			header(6)
			u32(le, uint32(len(x)))
			for _, p := range x {
				node(p, 0)
			}
		case orb.Collection:
			header(7)
			u32(le, uint32(len(x)))
			for _, c := range x {
				node(c, 0)
			}
		default:
			panic(fmt.Sprintf("wkbmodel.Encode: %T is not a normalised geometry", g))
		}
	}
	node(g, srid)
	return out
}
