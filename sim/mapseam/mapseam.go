// Package mapseam drives the map-iteration seam of an instrumented copy of
// orb: the order of every `range` over a map (and whether keys created during
// the loop are produced) is a choice on the run's choice stream.
package mapseam

import (
	"github.com/paulmach/orb/verifrt"

	"verif/sim/core"
)

// Policies.
const (
	Ascending = iota // canonical order
	Descending
	Rotated
	Shuffled
	Drawn // a policy is drawn per loop
	NumPolicies
)

var PolicyNames = [...]string{"ascending", "descending", "rotated", "shuffled", "drawn-per-loop"}

// Hook implements verifrt.MapHook.
type Hook struct {
	T      *core.T
	Policy int
	// NewKeys: 0 = never produce keys created during the loop, 1 = always
	// (at a drawn position), 2 = flip a coin per key.
	NewKeys int
	Loops   int64
}

func (h *Hook) Order(site int, where string, n int) []int {
	s := h.T.Src
	h.Loops++
	p := h.Policy
	if p == Drawn {
		p = s.Intn(4, "maporder")
	}
	out := make([]int, n)
	for i := range out {
		out[i] = i
	}
	switch p {
	case Descending:
		for i, j := 0, n-1; i < j; i, j = i+1, j-1 {
			out[i], out[j] = out[j], out[i]
		}
	case Rotated:
		r := s.Intn(n, "rot")
		for i := range out {
			out[i] = (i + r) % n
		}
	case Shuffled:
		for i := n - 1; i > 0; i-- {
			j := s.Intn(i+1, "shuf")
			out[i], out[j] = out[j], out[i]
		}
	}
	h.T.Fault("map_order_" + PolicyNames[p])
	return out
}

func (h *Hook) Created(site int, where string, remaining int) (bool, int) {
	s := h.T.Src
	switch h.NewKeys {
	case 0:
		h.T.Fault("map_newkey_not_produced")
		return false, 0
	case 1:
		h.T.Fault("map_newkey_produced")
		return true, s.Intn(remaining+1, "newkey-at")
	}
	if s.Bool("newkey") {
		h.T.Fault("map_newkey_produced")
		return true, s.Intn(remaining+1, "newkey-at")
	}
	h.T.Fault("map_newkey_not_produced")
	return false, 0
}

// With installs a hook for the duration of f.
func With(h *Hook, f func()) {
	old := verifrt.Hook
	verifrt.Hook = h
	defer func() { verifrt.Hook = old }()
	f()
}
