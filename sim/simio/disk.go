package simio

import (
	"encoding/binary"
	"fmt"
	"os"

	"verif/sim/core"
)

// Storage faults: what a blob looks like when it is read back after the medium
// (or a misdirected / torn / lost write) damaged it.

// Fault is one storage fault.
type Fault struct {
	Kind string
	Pos  int
	Len  int
	Val  uint64
	BE   bool
	Data []byte // garbage / splice source
}

func (f Fault) String() string {
	switch f.Kind {
	case "truncate":
		return fmt.Sprintf("truncate(keep %d bytes)", f.Pos)
	case "bitflip":
		return fmt.Sprintf("bitflip(byte %d, bit %d)", f.Pos, f.Val)
	case "byte_set":
		return fmt.Sprintf("byte_set(byte %d = %#02x)", f.Pos, f.Val)
	case "word_set":
		e := "LE"
		if f.BE {
			e = "BE"
		}
		return fmt.Sprintf("word_set(offset %d = %#x %s)", f.Pos, f.Val, e)
	case "zero_range", "dup_range", "drop_range":
		return fmt.Sprintf("%s(offset %d, %d bytes)", f.Kind, f.Pos, f.Len)
	case "splice":
		return fmt.Sprintf("splice(offset %d, %d bytes of another blob)", f.Pos, len(f.Data))
	case "garbage":
		return fmt.Sprintf("garbage(offset %d, %x)", f.Pos, f.Data)
	}
	return f.Kind
}

// ByteSetValues are the byte values a byte_set fault writes.
// (0x02..0x07 are the WKB geometry type codes: a media fault that turns one member's type into another's)
var ByteSetValues = []byte{0x00, 0x01, 0x7f, 0x80, 0xff, 0x1f, 0x8b, 0x30, 0x5c, 0x78, 0x02, 0x03, 0x04, 0x05, 0x06, 0x07}

// WordSetValues are the 32-bit values a word_set fault writes (count inflation).
// WordSetValues are the 32-bit values a word_set fault writes (count
// inflation): the boundary counts the property names, plus the counts at
// which count*size first wraps in 32 (and 31) bits for the element sizes that
// occur in the formats (ceil(2^32/size): 3, 5, 8, 9, 12, 20, 21, 24 bytes).
var WordSetValues = []uint32{0, 1, 1 << 28, 1<<28 + 1, 1 << 31, 1<<32 - 1,
	1431655766, 858993460, 1 << 29, 477218589, 357913942, 214748365, 204522253, 178956971,
	1<<27 + 1, 102261127}

// Apply returns the damaged copy of b (dst is reused when large enough).
func (f Fault) Apply(dst, b []byte) []byte {
	dst = append(dst[:0], b...)
	n := len(dst)
	switch f.Kind {
	case "truncate":
		if f.Pos < n {
			dst = dst[:f.Pos]
		}
	case "bitflip":
		if f.Pos < n {
			dst[f.Pos] ^= 1 << (f.Val & 7)
		}
	case "byte_set":
		if f.Pos < n {
			dst[f.Pos] = byte(f.Val)
		}
	case "word_set":
		if f.Pos+4 <= n {
			if f.BE {
				binary.BigEndian.PutUint32(dst[f.Pos:], uint32(f.Val))
			} else {
				binary.LittleEndian.PutUint32(dst[f.Pos:], uint32(f.Val))
			}
		}
	case "zero_range":
		for i := f.Pos; i < f.Pos+f.Len && i < n; i++ {
			dst[i] = 0
		}
	case "dup_range":
		if f.Pos < n {
			end := f.Pos + f.Len
			if end > n {
				end = n
			}
			seg := append([]byte{}, dst[f.Pos:end]...)
			dst = append(dst[:end], append(seg, dst[end:]...)...)
		}
	case "drop_range":
		if f.Pos < n {
			end := f.Pos + f.Len
			if end > n {
				end = n
			}
			dst = append(dst[:f.Pos], dst[end:]...)
		}
	case "splice":
		for i, c := range f.Data {
			if f.Pos+i < n {
				dst[f.Pos+i] = c
			}
		}
	case "garbage":
		if f.Pos <= n {
			dst = append(dst[:f.Pos], append(append([]byte{}, f.Data...), dst[f.Pos:]...)...)
		}
	}
	return dst
}

// Enumerable fault kinds.
var EnumKinds = []string{"truncate", "bitflip", "word_set", "byte_set"}

// Enumerate calls visit for every single fault of the given kind on a blob
// of n bytes. For bitflip on blobs over 256 bytes, 2048 flips are sampled
// from s instead (returns exhaustive=false).
func Enumerate(kind string, n int, s *core.Source, visit func(f Fault) bool) (count int, exhaustive bool) {
	exhaustive = true
	if os.Getenv("VERIF_C05_NOCAP") == "" && (kind == "word_set" && n > 200 || kind == "byte_set" && n > 400) {
		// large blobs: every offset still gets a fault, but with 3 drawn values instead of all
		// (keeps a run under a second so that the hang watchdog can be tight)
		exhaustive = false
		for p := 0; p < n; p++ {
			for k := 0; k < 3; k++ {
				var f Fault
				if kind == "word_set" {
					if p+4 > n {
						continue
					}
					f = Fault{Kind: kind, Pos: p, Val: uint64(WordSetValues[s.Intn(len(WordSetValues), "wv")]), BE: s.Bool("be")}
				} else {
					f = Fault{Kind: kind, Pos: p, Val: uint64(ByteSetValues[s.Intn(len(ByteSetValues), "bv")])}
				}
				count++
				if !visit(f) {
					return
				}
			}
		}
		return
	}
	switch kind {
	case "truncate":
		for k := 0; k < n; k++ {
			count++
			if !visit(Fault{Kind: kind, Pos: k}) {
				return
			}
		}
	case "bitflip":
		if n > 256 {
			exhaustive = false
			for i := 0; i < 2048; i++ {
				count++
				if !visit(Fault{Kind: kind, Pos: s.Intn(n, "flip-pos"), Val: uint64(s.Intn(8, "flip-bit"))}) {
					return
				}
			}
			return
		}
		for p := 0; p < n; p++ {
			for b := 0; b < 8; b++ {
				count++
				if !visit(Fault{Kind: kind, Pos: p, Val: uint64(b)}) {
					return
				}
			}
		}
	case "word_set":
		for p := 0; p+4 <= n; p++ {
			for _, v := range WordSetValues {
				for _, be := range []bool{false, true} {
					count++
					if !visit(Fault{Kind: kind, Pos: p, Val: uint64(v), BE: be}) {
						return
					}
				}
			}
		}
	case "byte_set":
		for p := 0; p < n; p++ {
			for _, v := range ByteSetValues {
				count++
				if !visit(Fault{Kind: kind, Pos: p, Val: uint64(v)}) {
					return
				}
			}
		}
	}
	return
}

// DrawFault draws one fault of any kind for a blob of n bytes; other is a
// second stored blob (source of misdirected writes).
func DrawFault(s *core.Source, n int, other []byte) Fault {
	if n == 0 {
		return Fault{Kind: "garbage", Pos: 0, Data: drawBytes(s, s.Range(0, 8, "glen"))}
	}
	kinds := []string{"truncate", "bitflip", "byte_set", "word_set", "zero_range", "dup_range", "drop_range", "splice", "garbage"}
	k := kinds[s.Pick([]int{3, 3, 2, 3, 1, 2, 2, 2, 2}, "fault")]
	f := Fault{Kind: k, Pos: s.Intn(n, "pos")}
	switch k {
	case "bitflip":
		f.Val = uint64(s.Intn(8, "bit"))
	case "byte_set":
		f.Val = uint64(ByteSetValues[s.Intn(len(ByteSetValues), "val")])
	case "word_set":
		f.Val = uint64(WordSetValues[s.Intn(len(WordSetValues), "val")])
		f.BE = s.Bool("be")
	case "zero_range", "dup_range", "drop_range":
		f.Len = 1 + s.Pick([]int{4, 2, 2, 1, 1, 1, 1, 1, 1, 1, 1, 1, 1, 1, 1, 1}, "len")
		if s.Chance(1, 8, "long") {
			f.Len = s.Range(1, n, "len")
		}
	case "splice":
		if len(other) == 0 {
			f.Data = drawBytes(s, s.Range(1, 8, "glen"))
		} else {
			from := s.Intn(len(other), "from")
			l := s.Range(1, 16, "slen")
			if from+l > len(other) {
				l = len(other) - from
			}
			f.Data = other[from : from+l]
		}
	case "garbage":
		f.Data = drawBytes(s, s.Range(0, 8, "glen"))
	}
	return f
}

func drawBytes(s *core.Source, n int) []byte {
	b := make([]byte, n)
	for i := range b {
		if s.Bool("special") {
			b[i] = ByteSetValues[s.Intn(len(ByteSetValues), "gb")]
		} else {
			b[i] = byte(s.Intn(256, "gb"))
		}
	}
	return b
}
