// Package simio is the simulated stream and storage layer: every Read and
// Write orb performs on a caller-supplied io.Reader / io.Writer is an event
// the choice stream decides (how many bytes, whether it fails, when EOF
// arrives), and stored blobs can be corrupted the way real media corrupt them.
package simio

import (
	"errors"
	"io"

	"verif/sim/core"
	"verif/sim/kernel"
)

// ErrInjected is the error of injected read/write failures.
var ErrInjected = errors.New("simio: injected I/O error")

// ReaderFaults configures a faulty reader. Rates are "1 in N" (0 = off).
type ReaderFaults struct {
	Frag        int // return fewer bytes than available
	Stutter     int // (0, nil), at most 3 in a row
	EOFWithData int // final chunk comes with io.EOF
	ErrAt       int // inject ErrInjected at this Read call (1-based; 0 = never)
}

// DrawReaderFaults draws a benign fault profile (no errors): everything the
// io.Reader contract allows that must not change any result.
func DrawReaderFaults(s *core.Source) ReaderFaults {
	var f ReaderFaults
	if s.Chance(2, 3, "frag?") {
		f.Frag = []int{1, 2, 4}[s.Intn(3, "fragrate")]
	}
	if s.Chance(1, 2, "stutter?") {
		f.Stutter = []int{2, 5, 20}[s.Intn(3, "stutterrate")]
	}
	if s.Chance(1, 2, "eofdata?") {
		f.EOFWithData = 1
	}
	return f
}

// Reader is a non-blocking faulty reader over a byte slice (no kernel needed).
type Reader struct {
	T        *core.T
	Src      *core.Source
	Data     []byte
	F        ReaderFaults
	pos      int
	Reads    int
	Stutters int
	inRow    int
	// EOFWithDataAnywhere: also deliver io.EOF together with a final chunk
	sawEOF bool
}

func NewReader(t *core.T, data []byte, f ReaderFaults) *Reader {
	return &Reader{T: t, Src: t.Src, Data: data, F: f}
}

func (r *Reader) Read(p []byte) (int, error) {
	r.Reads++
	if r.F.ErrAt != 0 && r.Reads == r.F.ErrAt {
		r.T.Fault("read_err")
		return 0, ErrInjected
	}
	if len(p) == 0 {
		return 0, nil
	}
	if r.pos >= len(r.Data) {
		return 0, io.EOF
	}
	if r.F.Stutter > 0 && r.inRow < 3 && r.Src.Chance(1, r.F.Stutter, "stutter") {
		r.inRow++
		r.Stutters++
		r.T.Fault("stutter")
		return 0, nil
	}
	r.inRow = 0
	n := len(p)
	if rest := len(r.Data) - r.pos; n > rest {
		n = rest
	}
	if n > 1 && r.F.Frag > 0 && r.Src.Chance(1, r.F.Frag, "frag") {
		n = 1 + r.Src.Intn(n-1, "fraglen")
		r.T.Fault("frag")
	}
	copy(p, r.Data[r.pos:r.pos+n])
	r.pos += n
	if r.pos == len(r.Data) && r.F.EOFWithData > 0 && r.Src.Chance(1, r.F.EOFWithData, "eofdata") {
		r.T.Fault("eof_with_data")
		return n, io.EOF
	}
	return n, nil
}

// Remaining is the number of unread bytes.
func (r *Reader) Remaining() int { return len(r.Data) - r.pos }

// ---- kernel pipe ----

// PipeFaults configures the pipe's two ends.
type PipeFaults struct {
	R          ReaderFaults
	WriteErrAt int // fail this Write call (1-based; 0 = never): the producer crashes, torn tail
	DiskFull   int // every Write after this many bytes fails (0 = never)
}

// Pipe is a bounded in-memory stream between two kernel tasks.
type Pipe struct {
	K             *kernel.Kernel
	T             *core.T
	F             PipeFaults
	Cap           int
	buf           []byte
	closed        bool
	rclosed       bool // the read end is gone: writes fail like EPIPE
	WriteFailures int
	ReadErrFired  bool
	reader        *kernel.Task // parked reader
	writer        *kernel.Task // parked writer
	Writes        int
	Reads         int
	Stutters      int
	Written       int // bytes accepted
	inRow         int
	// ReadsThisOp / BytesThisOp / StuttersThisOp are reset by the consumer per Decode (bounded liveness).
	ReadsThisOp    int
	BytesThisOp    int
	StuttersThisOp int
}

const (
	siteWrite = -10
	siteRead  = -11
)

func NewPipe(k *kernel.Kernel, t *core.T, capacity int, f PipeFaults) *Pipe {
	return &Pipe{K: k, T: t, Cap: capacity, F: f}
}

// W returns the writer end.
func (p *Pipe) W() io.Writer { return pipeWriter{p} }

// R returns the reader end.
func (p *Pipe) R() io.Reader { return pipeReader{p} }

type pipeWriter struct{ p *Pipe }
type pipeReader struct{ p *Pipe }

func (w pipeWriter) Write(b []byte) (int, error) {
	p := w.p
	p.K.Yield(siteWrite)
	p.Writes++
	if p.closed || p.rclosed {
		p.WriteFailures++
		return 0, io.ErrClosedPipe
	}
	if p.F.WriteErrAt != 0 && p.Writes >= p.F.WriteErrAt {
		p.WriteFailures++
		p.T.Fault("write_err")
		p.T.Logf("write #%d of %d bytes fails (injected)", p.Writes, len(b))
		return 0, ErrInjected
	}
	if p.F.DiskFull != 0 && p.Written+len(b) > p.F.DiskFull {
		p.WriteFailures++
		p.T.Fault("disk_full")
		p.T.Logf("write #%d of %d bytes fails (disk full at %d)", p.Writes, len(b), p.F.DiskFull)
		return 0, ErrInjected
	}
	// all-or-error: block until everything is accepted
	off := 0
	for off < len(b) {
		if p.rclosed {
			p.WriteFailures++
			return off, io.ErrClosedPipe
		}
		free := p.Cap - len(p.buf)
		if free <= 0 {
			p.writer = p.K.Current()
			p.K.Park()
			p.writer = nil
			continue
		}
		n := len(b) - off
		if n > free {
			n = free
		}
		p.buf = append(p.buf, b[off:off+n]...)
		off += n
		p.Written += n
		if p.reader != nil {
			p.K.Wake(p.reader)
		}
	}
	p.T.Event("write", uint64(len(b)), uint64(p.Written))
	return len(b), nil
}

// Close ends the stream (clean close or crash: the reader sees EOF after the buffered bytes).
func (p *Pipe) Close() {
	p.closed = true
	if p.reader != nil {
		p.K.Wake(p.reader)
	}
}

// CloseRead is called when the consumer goes away: a blocked or later Write fails.
func (p *Pipe) CloseRead() {
	p.rclosed = true
	if p.writer != nil {
		p.K.Wake(p.writer)
	}
}

func (r pipeReader) Read(b []byte) (int, error) {
	p := r.p
	p.K.Yield(siteRead)
	p.Reads++
	p.ReadsThisOp++
	if p.F.R.ErrAt != 0 && p.Reads == p.F.R.ErrAt {
		p.ReadErrFired = true
		p.T.Fault("read_err")
		p.T.Logf("read #%d fails (injected)", p.Reads)
		return 0, ErrInjected
	}
	if len(b) == 0 {
		return 0, nil
	}
	for len(p.buf) == 0 {
		if p.closed {
			return 0, io.EOF
		}
		p.reader = p.K.Current()
		p.K.Park()
		p.reader = nil
	}
	s := p.T.Src
	if p.F.R.Stutter > 0 && p.inRow < 3 && s.Chance(1, p.F.R.Stutter, "stutter") {
		p.inRow++
		p.Stutters++
		p.StuttersThisOp++
		p.T.Fault("stutter")
		return 0, nil
	}
	p.inRow = 0
	n := len(b)
	if n > len(p.buf) {
		n = len(p.buf)
	}
	if n > 1 && p.F.R.Frag > 0 && s.Chance(1, p.F.R.Frag, "frag") {
		n = 1 + s.Intn(n-1, "fraglen")
		p.T.Fault("frag")
	}
	copy(b, p.buf[:n])
	p.buf = p.buf[n:]
	p.BytesThisOp += n
	if p.writer != nil {
		p.K.Wake(p.writer)
	}
	p.T.Event("read", uint64(n), uint64(len(p.buf)))
	if len(p.buf) == 0 && p.closed && p.F.R.EOFWithData > 0 && s.Chance(1, p.F.R.EOFWithData, "eofdata") {
		p.T.Fault("eof_with_data")
		return n, io.EOF
	}
	return n, nil
}
