module verif/sim

go 1.23

require (
	github.com/gogo/protobuf v1.3.2
	github.com/paulmach/orb v0.0.0
	go.mongodb.org/mongo-driver v1.11.4
)

require github.com/paulmach/protoscan v0.2.1 // indirect

replace github.com/paulmach/orb => /repo
