module verif/sim

go 1.23

require github.com/paulmach/orb v0.0.0

replace github.com/paulmach/orb => /repo
