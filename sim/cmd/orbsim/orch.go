package main

import (
	"bytes"
	"encoding/json"
	"flag"
	"fmt"
	"os"
	"os/exec"
	"path/filepath"
	"sort"
	"strconv"
	"strings"
	"sync"
	"time"

	"verif/sim/core"
	"verif/sim/props"
)

type orch struct {
	p        *props.Property
	tier     string
	seed     uint64
	seedInt  int64
	bindir   string
	work     string
	verif    string
	workers  int
	budget   float64
	findings *core.FindingsFile
	known    string

	mu                 sync.Mutex
	trouble            []string
	sums               map[string][]*Summary // engine -> worker summaries
	deaths             []VRec
	races              []VRec // verified by the race detector itself, not by replay
	lostRuns           int64
	skippedAfterDeaths int
	extra              map[string]interface{} // engine-specific evidence (external engines)
}

func (o *orch) bin(variant string) string { return filepath.Join(o.bindir, "orbsim-"+variant) }

func (o *orch) addTrouble(format string, a ...interface{}) {
	o.mu.Lock()
	defer o.mu.Unlock()
	if len(o.trouble) < 50 {
		o.trouble = append(o.trouble, fmt.Sprintf(format, a...))
	}
}

func envInt(name string, def int64) int64 {
	if v := os.Getenv(name); v != "" {
		if n, err := strconv.ParseInt(v, 10, 64); err == nil {
			return n
		}
	}
	return def
}

func orchMain(args []string) int {
	fs := flag.NewFlagSet("orch", flag.ExitOnError)
	propID := fs.String("prop", "", "")
	tier := fs.String("tier", "quick", "")
	bindir := fs.String("bindir", "", "")
	work := fs.String("work", "", "")
	verif := fs.String("verif", "/verif", "")
	fs.Parse(args)
	t0 := time.Now()

	p := props.Get(*propID)
	if p == nil {
		fmt.Fprintln(os.Stderr, "unknown property", *propID)
		return 2
	}
	o := &orch{p: p, tier: *tier, bindir: *bindir, work: *work, verif: *verif, sums: map[string][]*Summary{}, extra: map[string]interface{}{}}
	o.seedInt = envInt("VERIF_SEED", 20260101)
	o.seed = uint64(o.seedInt)
	o.workers = int(envInt("VERIF_WORKERS", 16))
	o.budget = float64(envInt("VERIF_BUDGET_S", 900))
	o.known = filepath.Join(*verif, "known_findings.json")
	var err error
	o.findings, err = core.LoadFindings(o.known)
	if err != nil {
		fmt.Fprintln(os.Stderr, "known findings:", err)
		return 2
	}
	if out := os.Getenv("VERIF_OUT"); out != "" {
		// sensitivity runs against scratch copies write their evidence and replay files elsewhere
		o.verif = out
	}
	os.MkdirAll(filepath.Join(o.verif, "replays"), 0o755)
	os.MkdirAll(filepath.Join(o.verif, "evidence"), 0o755)

	fmt.Printf("orbsim: property=%s tier=%s VERIF_SEED=%d workers=%d\n", p.ID, o.tier, o.seedInt, o.workers)
	for i := range p.Engines {
		e := &p.Engines[i]
		if e.External {
			o.runExternal(e)
			continue
		}
		o.runEngine(e)
	}
	detOK, detN := o.determinismRecheck()
	code := o.finish(t0, detOK, detN)
	return code
}

// runEngine runs one engine over its run index space with o.workers processes.
func (o *orch) runEngine(e *props.Engine) {
	var limit, minRuns uint64
	var deadline int64
	if o.tier == "quick" {
		limit = uint64(e.QuickRuns)
		if q := envInt("VERIF_QUICK_SCALE_PCT", 100); q != 100 {
			limit = limit * uint64(q) / 100
		}
	} else {
		minRuns = uint64(e.MinThorough)
		deadline = time.Now().Unix() + int64(o.budget*e.Share)
	}
	recIdx := "0,1,2,3,4"
	var wg sync.WaitGroup
	t0 := time.Now()
	nw := o.workers
	if e.Workers > 0 && e.Workers < nw {
		nw = e.Workers
	}
	for w := 0; w < nw; w++ {
		wg.Add(1)
		go func(w int) {
			defer wg.Done()
			start := uint64(w)
			for attempt := 0; attempt < 20; attempt++ {
				if e.Variant == "race" && attempt >= 3 {
					return // three reports from this worker's share are enough
				}
				o.mu.Lock()
				confirmed := len(o.deaths)
				o.mu.Unlock()
				if attempt > 0 && confirmed >= 3 {
					// the code under test keeps bringing workers down (each death costs a watchdog
					// period plus a confirmation run): three confirmed deaths decide the check,
					// the rest of this worker's share is not explored
					o.mu.Lock()
					o.skippedAfterDeaths++
					o.mu.Unlock()
					return
				}
				next, done := o.spawnWorker(e, w, attempt, start, uint64(nw), limit, minRuns, deadline, recIdx)
				if done {
					return
				}
				start = next
			}
			o.addTrouble("engine %s worker %d: too many worker deaths", e.Name, w)
		}(w)
	}
	wg.Wait()
	var runs int64
	for _, s := range o.sums[e.Name] {
		runs += s.Runs
	}
	fmt.Printf("orbsim: engine %s (%s): %d runs in %.1fs\n", e.Name, e.Variant, runs, time.Since(t0).Seconds())
}

// spawnWorker runs one worker process; on an abnormal death it attributes it
// through the journal and tells the caller where to resume.
func (o *orch) spawnWorker(e *props.Engine, w, attempt int, start, stride, limit, minRuns uint64, deadline int64, recIdx string) (next uint64, done bool) {
	tag := fmt.Sprintf("%s-%s-w%d-a%d", o.p.ID, e.Name, w, attempt)
	out := filepath.Join(o.work, tag+".json")
	journal := filepath.Join(o.work, tag+".journal")
	args := []string{"worker", "-prop", o.p.ID, "-engine", e.Name, "-variant", e.Variant,
		"-seed", strconv.FormatUint(o.seed, 10), "-start", strconv.FormatUint(start, 10), "-stride", strconv.FormatUint(stride, 10),
		"-limit", strconv.FormatUint(limit, 10), "-min", strconv.FormatUint(minRuns, 10), "-deadline", strconv.FormatInt(deadline, 10),
		"-record", recIdx, "-journal", journal, "-out", out, "-replaydir", filepath.Join(o.verif, "replays"), "-known", o.known}
	cmd := exec.Command(o.bin(e.Variant), args...)
	procs := 2
	if e.Procs > 0 {
		procs = e.Procs
	}
	cmd.Env = append(os.Environ(), fmt.Sprintf("GOMAXPROCS=%d", procs), "GORACE=halt_on_error=1 exitcode=66")
	var stderr bytes.Buffer
	cmd.Stderr = &stderr
	cmd.Stdout = &stderr
	// overall wall limit as the last safety net
	wall := 20 * time.Minute
	if o.tier != "quick" {
		wall = time.Duration(o.budget*e.Share)*time.Second + 30*time.Minute
	}
	if err := cmd.Start(); err != nil {
		o.addTrouble("cannot start worker: %v", err)
		return 0, true
	}
	timer := time.AfterFunc(wall, func() { cmd.Process.Kill() })
	err := cmd.Wait()
	timer.Stop()
	if err == nil {
		if s := readSummary(out); s != nil {
			o.mu.Lock()
			o.sums[e.Name] = append(o.sums[e.Name], s)
			o.mu.Unlock()
			return 0, true
		}
		o.addTrouble("worker %s wrote no summary", tag)
		return 0, true
	}
	// abnormal death: which run?
	jb, _ := os.ReadFile(journal)
	runIdx, perr := strconv.ParseUint(strings.TrimSpace(string(jb)), 10, 64)
	tail := stderr.String()
	if len(tail) > 1500 {
		tail = tail[:700] + "\n...\n" + tail[len(tail)-700:]
	}
	if perr != nil {
		o.addTrouble("worker %s died (%v) before its first run:\n%s", tag, err, tail)
		return 0, true
	}
	kind := "died"
	if strings.Contains(stderr.String(), "WARNING: DATA RACE") {
		o.mu.Lock()
		o.lostRuns += int64((runIdx-start)/stride) + 1
		o.mu.Unlock()
		o.recordRace(e, runIdx, stderr.String())
		return runIdx + stride, false
	}
	if strings.Contains(stderr.String(), "HANG run=") {
		kind = "hang:" + hangDetail(stderr.String())
		if i := strings.Index(tail, "\n\ngoroutine "); i > 0 {
			tail = tail[:i]
		}
	} else if strings.Contains(tail, "out of memory") || strings.Contains(tail, "cannot allocate memory") {
		kind = "out-of-memory"
	} else if strings.Contains(tail, "stack exceeds") || strings.Contains(tail, "stack overflow") {
		kind = "stack-overflow"
	}
	o.mu.Lock()
	if ps := readSummary(out + ".partial"); ps != nil {
		// keep what the dead worker had counted and found up to its last checkpoint
		o.sums[e.Name] = append(o.sums[e.Name], ps)
		o.lostRuns += int64((runIdx-start)/stride) + 1 - ps.Runs
	} else {
		o.lostRuns += int64((runIdx-start)/stride) + 1 // the dead worker's completed runs are lost with its summary
	}
	o.mu.Unlock()
	o.confirmDeath(e, runIdx, kind, tail)
	return runIdx + stride, false
}

// confirmDeath re-runs the run alone in a fresh process; only a death that
// reproduces is reported as a violation.
func (o *orch) confirmDeath(e *props.Engine, runIdx uint64, kind, tail string) {
	journal := filepath.Join(o.work, fmt.Sprintf("confirm-%s-%d.journal", e.Name, runIdx))
	cmd := exec.Command(o.bin(e.Variant), "worker", "-prop", o.p.ID, "-engine", e.Name, "-variant", e.Variant,
		"-seed", strconv.FormatUint(o.seed, 10), "-only", strconv.FormatUint(runIdx, 10), "-journal", journal,
		"-out", filepath.Join(o.work, "confirm.json"), "-replaydir", filepath.Join(o.verif, "replays"), "-known", o.known)
	cmd.Env = append(os.Environ(), "GOMAXPROCS=2")
	var stderr bytes.Buffer
	cmd.Stderr = &stderr
	if err := cmd.Start(); err != nil {
		o.addTrouble("cannot start confirm worker: %v", err)
		return
	}
	timer := time.AfterFunc(10*time.Minute, func() { cmd.Process.Kill() })
	err := cmd.Wait()
	timer.Stop()
	if err == nil {
		o.addTrouble("engine %s run %d: worker death (%s) did not reproduce when the run was repeated alone:\n%s", e.Name, runIdx, kind, tail)
		return
	}
	rs := core.RunSeed(o.seed, o.p.ID, e.Name, runIdx)
	c := core.Class{Property: o.p.ID, Oracle: "process-survives", API: e.Name, Detail: kind}
	rf := &core.ReplayFile{Property: o.p.ID, Engine: e.Name, Variant: e.Variant, VerifSeed: o.seed, Run: runIdx, RunSeed: rs, BySeed: true,
		Class: c, Msg: "the worker process was brought down (" + kind + ") by this run; reproduced alone. stderr tail:\n" + tail, Values: core.U64s{}}
	path := filepath.Join(o.verif, "replays", fmt.Sprintf("%s-%s-death-%d.json", o.p.ID, e.Name, runIdx))
	if err := rf.Write(path); err != nil {
		o.addTrouble("cannot write replay file: %v", err)
		return
	}
	o.mu.Lock()
	o.deaths = append(o.deaths, VRec{Class: c, Msg: rf.Msg, Replay: path, Run: runIdx, Engine: e.Name})
	o.mu.Unlock()
}

// recordRace turns a race-detector report into a violation when it involves
// orb code; a report with harness frames only is harness trouble.
func (o *orch) recordRace(e *props.Engine, runIdx uint64, report string) {
	if i := strings.Index(report, "WARNING: DATA RACE"); i >= 0 {
		report = report[i:]
	}
	if len(report) > 6000 {
		report = report[:6000] + "\n..."
	}
	if !strings.Contains(report, "github.com/paulmach/orb/quadtree") && !strings.Contains(report, "github.com/paulmach/orb/planar") && !strings.Contains(report, "paulmach/orb.") {
		o.addTrouble("engine %s run %d: data race without an orb frame (harness race?):\n%s", e.Name, runIdx, report)
		return
	}
	// detail: the first orb function named in the report
	detail := ""
	for _, ln := range strings.Split(report, "\n") {
		ln = strings.TrimSpace(ln)
		if strings.HasPrefix(ln, "github.com/paulmach/orb/") && !strings.Contains(ln, "verifrt") {
			detail = strings.TrimSuffix(strings.SplitN(ln, "(", 2)[0], ".")
			if j := strings.Index(ln, "()"); j > 0 {
				detail = ln[:j]
			}
			break
		}
	}
	rs := core.RunSeed(o.seed, o.p.ID, e.Name, runIdx)
	c := core.Class{Property: o.p.ID, Oracle: "race-free", API: e.Name, Detail: detail}
	rf := &core.ReplayFile{Property: o.p.ID, Engine: e.Name, Variant: e.Variant, VerifSeed: o.seed, Run: runIdx, RunSeed: rs, BySeed: true,
		Class: c, Msg: "the race detector reported a data race while only read-only queries were running (real goroutines; reproduction is near-certain, not exact):\n" + report, Values: core.U64s{}}
	path := filepath.Join(o.verif, "replays", fmt.Sprintf("%s-%s-race-%d.json", o.p.ID, e.Name, runIdx))
	if err := rf.Write(path); err != nil {
		o.addTrouble("cannot write replay file: %v", err)
		return
	}
	o.mu.Lock()
	o.races = append(o.races, VRec{Class: c, Msg: rf.Msg, Replay: path, Run: runIdx, Engine: e.Name})
	o.mu.Unlock()
}

// hangDetail finds, in the watchdog's goroutine dump, the goroutine that was
// executing the run (it has core.Execute or a kernel task on its stack) and
// attributes the hang like a panic: orb function, or dep:<package>.
func hangDetail(dump string) string {
	blocks := strings.Split(dump, "\n\ngoroutine ")
	for _, b := range blocks {
		if !strings.Contains(b, "verif/sim/core.Execute") && !strings.Contains(b, "verif/sim/kernel.") {
			continue
		}
		if strings.Contains(b, "runtime.Stack") {
			continue // the watchdog itself
		}
		var funcs []string
		for _, ln := range strings.Split(b, "\n") {
			if ln == "" || ln[0] == '\t' || ln[0] == ' ' || !strings.Contains(ln, "(") {
				continue
			}
			fn := ln[:strings.LastIndex(ln, "(")]
			if strings.HasPrefix(fn, "verif/sim/") || strings.HasPrefix(fn, "main.") {
				break
			}
			funcs = append(funcs, fn)
		}
		if len(funcs) > 0 {
			return core.ClassifyStack(funcs)
		}
	}
	return "unknown"
}

func readSummary(path string) *Summary {
	b, err := os.ReadFile(path)
	if err != nil {
		return nil
	}
	s := &Summary{}
	if json.Unmarshal(b, s) != nil {
		return nil
	}
	return s
}

// determinismRecheck repeats recorded runs in a fresh process at another
// GOMAXPROCS and compares event-log digests.
func (o *orch) determinismRecheck() (ok bool, n int) {
	ok = true
	for i := range o.p.Engines {
		e := &o.p.Engines[i]
		if e.External {
			continue
		}
		want := map[string]string{}
		for _, s := range o.sums[e.Name] {
			for k, v := range s.Recorded {
				want[k] = v
			}
		}
		if len(want) == 0 {
			continue
		}
		var idx []string
		for k := range want {
			idx = append(idx, k)
		}
		sort.Strings(idx)
		out := filepath.Join(o.work, "recheck-"+e.Name+".json")
		cmd := exec.Command(o.bin(e.Variant), "worker", "-prop", o.p.ID, "-engine", e.Name, "-variant", e.Variant,
			"-seed", strconv.FormatUint(o.seed, 10), "-only", strings.Join(idx, ","), "-out", out,
			"-replaydir", o.work, "-known", o.known, "-maxshrink", "0")
		cmd.Env = append(os.Environ(), "GOMAXPROCS=4")
		if b, err := cmd.CombinedOutput(); err != nil {
			o.addTrouble("determinism recheck of engine %s failed to run: %v\n%s", e.Name, err, b)
			ok = false
			continue
		}
		s := readSummary(out)
		if s == nil {
			o.addTrouble("determinism recheck of engine %s wrote no summary", e.Name)
			ok = false
			continue
		}
		for _, k := range idx {
			n++
			if s.Recorded[k] != want[k] {
				o.addTrouble("determinism: engine %s run %s digest %s on first execution, %s when repeated in a fresh process", e.Name, k, want[k], s.Recorded[k])
				ok = false
			}
		}
	}
	return
}

// verifyReplay replays a file in a fresh process; it must reproduce class and digest.
func (o *orch) verifyReplay(v VRec, variant string) bool {
	if strings.Contains(v.Class.API, "runtime map order") {
		// uncontrolled engine (real runtime map order): reproduction is
		// near-certain, not exact; give it a few attempts before complaining
		for i := 0; i < 4; i++ {
			if o.verifyReplayOnce(v, variant, false) {
				return true
			}
		}
	}
	return o.verifyReplayOnce(v, variant, true)
}

func (o *orch) verifyReplayOnce(v VRec, variant string, complain bool) bool {
	cmd := exec.Command(o.bin(variant), "replay", "-quiet", "-known", o.known, v.Replay)
	cmd.Env = append(os.Environ(), "GOMAXPROCS=2")
	var buf bytes.Buffer
	cmd.Stdout = &buf
	cmd.Stderr = &buf
	if err := cmd.Start(); err != nil {
		o.addTrouble("cannot start replay: %v", err)
		return false
	}
	timer := time.AfterFunc(10*time.Minute, func() { cmd.Process.Kill() })
	cmd.Wait()
	timer.Stop()
	if strings.Contains(buf.String(), "REPRODUCED exact") {
		return true
	}
	if v.Class.Oracle == "process-survives" && !strings.Contains(buf.String(), "NOT REPRODUCED") && cmd.ProcessState != nil && !cmd.ProcessState.Success() {
		return true // the replay from the seed brought the fresh process down again
	}
	if complain {
		o.addTrouble("replay of %s in a fresh process did not reproduce class+digest:\n%s", v.Replay, buf.String())
	}
	return false
}

func (o *orch) finish(t0 time.Time, detOK bool, detN int) int {
	p := o.p
	// merge
	var runs, steps, ops, switches, draws, allDigests int64
	faults := map[string]int64{}
	probes := map[string]int64{}
	nontriv := map[uint64]struct{}{}
	scheds := map[uint64]struct{}{}
	states := map[uint64]struct{}{}
	var samples []Sample
	var vrecs []VRec
	vcounts := map[string]int64{}
	perEngine := map[string]interface{}{}
	saturated := false
	var engNames []string
	for i := range p.Engines {
		engNames = append(engNames, p.Engines[i].Name)
	}
	for _, en := range engNames {
		var eruns, esteps int64
		var ewall float64
		for _, s := range o.sums[en] {
			runs += s.Runs
			eruns += s.Runs
			steps += s.Steps
			esteps += s.Steps
			ops += s.Ops
			switches += s.Switches
			draws += s.Draws
			allDigests += s.AllDigests
			if s.WallS > ewall {
				ewall = s.WallS
			}
			saturated = saturated || s.Saturated
			for k, v := range s.Faults {
				faults[k] += v
			}
			for k, v := range s.Probes {
				probes[k] += v
			}
			for _, d := range s.Digests {
				nontriv[core.Mix(d, core.HashString(en))] = struct{}{}
			}
			for _, d := range s.Scheds {
				scheds[d] = struct{}{}
			}
			for _, d := range s.States {
				states[(core.Mix(d, core.HashString(en))&^core.SpaceMask)|(d&core.SpaceMask)] = struct{}{}
			}
			if len(samples) < 4 && len(s.Samples) > 0 {
				have := 0
				for _, x := range samples {
					if x.Engine == en {
						have++
					}
				}
				if have < 1 {
					samples = append(samples, s.Samples[0])
				}
			}
			vrecs = append(vrecs, s.Violations...)
			for k, v := range s.VCounts {
				vcounts[k] += v
			}
			for _, tr := range s.Trouble {
				o.addTrouble("engine %s: %s", en, tr)
			}
		}
		if len(o.sums[en]) > 0 {
			pe := map[string]interface{}{"runs": eruns, "logical_steps": esteps, "wall_s": round1(ewall)}
			if ewall > 0 {
				pe["runs_per_hour"] = int64(float64(eruns) / ewall * 3600)
			}
			perEngine[en] = pe
		}
	}
	vrecs = append(vrecs, o.deaths...)
	for _, d := range o.deaths {
		vcounts[d.Class.String()]++
	}

	// one verified replay per class
	sort.Slice(vrecs, func(a, b int) bool {
		if vrecs[a].Class.String() != vrecs[b].Class.String() {
			return vrecs[a].Class.String() < vrecs[b].Class.String()
		}
		return vrecs[a].Run < vrecs[b].Run
	})
	type verdict struct {
		v     VRec
		known *core.Finding
	}
	var verdicts []verdict
	seen := map[core.Class]bool{}
	for _, v := range vrecs {
		if seen[v.Class] {
			continue
		}
		variant := "plain"
		if e := p.Engine(v.Engine); e != nil {
			variant = e.Variant
		}
		if !o.verifyReplay(v, variant) {
			continue // trouble recorded; try the next file of this class
		}
		seen[v.Class] = true
		verdicts = append(verdicts, verdict{v: v, known: o.findings.Known(v.Class)})
	}

	for _, v := range o.races {
		vcounts[v.Class.String()]++
		if !seen[v.Class] {
			seen[v.Class] = true
			verdicts = append(verdicts, verdict{v: v, known: o.findings.Known(v.Class)})
		}
	}

	violations := 0
	var knownLines []string
	for _, vd := range verdicts {
		if vd.known != nil {
			line := fmt.Sprintf("KNOWN-FINDING: property=%s %s", p.ID, vd.known.Text)
			dup := false
			for _, l := range knownLines {
				dup = dup || l == line
			}
			if !dup {
				knownLines = append(knownLines, line)
				fmt.Println(line)
			}
			continue
		}
		violations++
		fmt.Printf("VIOLATION property=%s replay=%s\n", p.ID, vd.v.Replay)
		if violations <= 6 {
			fmt.Printf("  class: %s (%d runs hit it)\n  %s\n", vd.v.Class, vcounts[vd.v.Class.String()], firstLines(vd.v.Msg, 10))
		} else {
			fmt.Printf("  class: %s (%d runs hit it)\n", vd.v.Class, vcounts[vd.v.Class.String()])
		}
	}

	wall := time.Since(t0).Seconds()
	cov := map[string]interface{}{
		"evaluations":                runs,
		"distinct_nontrivial":        len(nontriv),
		"rule":                       p.Rule,
		"samples":                    samples,
		"runs":                       runs,
		"runs_lost_to_worker_deaths": o.lostRuns,
		"worker_shares_skipped_after_three_confirmed_deaths": o.skippedAfterDeaths,
		"seeds":                   fmt.Sprintf("VERIF_SEED=%d; run i of engine e uses splitmix64(VERIF_SEED ^ fnv(property/e)) + i", o.seedInt),
		"runs_per_hour":           int64(float64(runs) / wall * 3600),
		"logical_steps":           steps,
		"workload_operations":     ops,
		"choice_draws":            draws,
		"simulated_time":          "n/a: nothing in orb reads a clock or sets a timer; logical steps (events) are reported instead",
		"fault_counts":            faults,
		"context_switches":        switches,
		"distinct_schedules":      len(scheds),
		"distinct_states":         len(states),
		"distinct_states_def":     p.StateDef,
		"probes":                  probes,
		"components":              map[string]interface{}{"real": nonNil(p.Real), "stub": nonNil(p.Stub), "instrumented": nonNil(p.Instr)},
		"engines":                 perEngine,
		"known_findings":          nonNil(knownLines),
		"violation_classes":       vcounts,
		"determinism_recheck":     map[string]interface{}{"runs_repeated_in_fresh_process": detN, "all_digests_equal": detOK},
		"exhaustive":              false,
		"distinct_sets_saturated": saturated,
	}
	if len(p.Spaces) > 0 {
		reached := make([]int64, 8)
		for k := range states {
			reached[k>>61]++
		}
		sp := map[string]interface{}{}
		for i, x := range p.Spaces {
			if i == 0 || x.Name == "" {
				continue
			}
			sp[x.Name] = map[string]interface{}{"reached": reached[i], "total": x.Total, "exhaustive": reached[i] == x.Total}
		}
		cov["small_spaces"] = sp
	}
	for k, v := range o.extra {
		cov[k] = v
	}
	if samples == nil {
		cov["samples"] = []Sample{}
	}
	ev := map[string]interface{}{
		"property_id": p.ID,
		"tier":        o.tier,
		"seed":        o.seedInt,
		"level":       p.Level,
		"coverage":    cov,
		"assumptions": p.Assumptions,
		"wall_s":      round1(wall),
		"violations":  violations,
	}
	b, _ := json.MarshalIndent(ev, "", " ")
	evPath := filepath.Join(o.verif, "evidence", p.ID+".json")
	if err := os.WriteFile(evPath, append(b, '\n'), 0o644); err != nil {
		o.addTrouble("cannot write evidence: %v", err)
	}
	fmt.Printf("orbsim: %s %s: %d runs, %d distinct non-trivial, %d states, %d steps, faults=%v, wall %.1fs, evidence %s\n",
		p.ID, o.tier, runs, len(nontriv), len(states), steps, faults, wall, evPath)

	if len(o.trouble) > 0 {
		for _, t := range o.trouble {
			fmt.Fprintln(os.Stderr, "HARNESS-TROUBLE:", t)
		}
		if violations > 0 {
			return 1
		}
		return 2
	}
	if violations > 0 {
		return 1
	}
	return 0
}

func nonNil(s []string) []string {
	if s == nil {
		return []string{}
	}
	return s
}

func round1(f float64) float64 { return float64(int64(f*10+0.5)) / 10 }

func firstLines(s string, n int) string {
	ls := strings.Split(s, "\n")
	if len(ls) > n {
		ls = append(ls[:n], "...")
	}
	return strings.Join(ls, "\n  ")
}

// runExternal is filled in by engines that are not choice-stream simulations.
func (o *orch) runExternal(e *props.Engine) {
	if f, ok := externals[e.Name]; ok {
		f(o, e)
		return
	}
	o.addTrouble("no external driver for engine %s", e.Name)
}

var externals = map[string]func(o *orch, e *props.Engine){}
