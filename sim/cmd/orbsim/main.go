// orbsim: orchestrator, worker and replayer of the simulated checks.
package main

import (
	"fmt"
	"os"

	_ "verif/sim/props/c01"
	_ "verif/sim/props/c03"
	_ "verif/sim/props/c05"
	_ "verif/sim/props/c11"
	_ "verif/sim/props/c14"
	_ "verif/sim/props/c19"
)

func main() {
	if len(os.Args) < 2 {
		fmt.Fprintln(os.Stderr, "usage: orbsim orch|worker|replay|list ...")
		os.Exit(2)
	}
	switch os.Args[1] {
	case "orch":
		os.Exit(orchMain(os.Args[2:]))
	case "worker":
		os.Exit(workerMain(os.Args[2:]))
	case "replay":
		os.Exit(replayMain(os.Args[2:]))
	case "selftest":
		os.Exit(selftestMain(os.Args[2:]))
	default:
		fmt.Fprintln(os.Stderr, "unknown subcommand", os.Args[1])
		os.Exit(2)
	}
}
