package main

import (
	"encoding/json"
	"flag"
	"fmt"
	"os"
	"path/filepath"
	"runtime"
	"sort"
	"strconv"
	"strings"
	"sync/atomic"
	"syscall"
	"time"

	"verif/sim/core"
	"verif/sim/props"
)

// Sample is a rendered run for the evidence file.
type Sample struct {
	Engine string   `json:"engine"`
	Run    uint64   `json:"run"`
	Seed   uint64   `json:"run_seed"`
	Draws  int      `json:"draws"`
	Trace  []string `json:"trace"`
}

// VRec is a violation found by a worker.
type VRec struct {
	Class  core.Class `json:"class"`
	Msg    string     `json:"msg"`
	Replay string     `json:"replay"`
	Run    uint64     `json:"run"`
	Engine string     `json:"engine"`
	Digest string     `json:"digest"`
}

// Summary is what a worker reports.
type Summary struct {
	Engine     string            `json:"engine"`
	Runs       int64             `json:"runs"`
	Steps      int64             `json:"steps"`
	Ops        int64             `json:"ops"`
	Switches   int64             `json:"switches"`
	Draws      int64             `json:"draws"`
	Faults     map[string]int64  `json:"faults"`
	Probes     map[string]int64  `json:"probes"`
	Digests    []uint64          `json:"digests"`     // distinct digests of non-trivial runs
	AllDigests int64             `json:"all_digests"` // distinct digests of all runs (count, this worker)
	Scheds     []uint64          `json:"scheds"`
	States     []uint64          `json:"states"`
	Samples    []Sample          `json:"samples"`
	Violations []VRec            `json:"violations"`
	VCounts    map[string]int64  `json:"vcounts"`
	Trouble    []string          `json:"trouble"`
	Recorded   map[string]string `json:"recorded"` // run index -> digest, for the determinism recheck
	WallS      float64           `json:"wall_s"`
	Saturated  bool              `json:"saturated"`
}

const setCap = 3_000_000

func parseList(s string) map[uint64]bool {
	m := map[uint64]bool{}
	for _, f := range strings.Split(s, ",") {
		if f == "" {
			continue
		}
		v, err := strconv.ParseUint(f, 10, 64)
		if err == nil {
			m[v] = true
		}
	}
	return m
}

// limitMemory bounds the damage of an over-allocating decoder: the process
// dies with "out of memory", the orchestrator attributes the death through the
// journal. Race binaries are exempt (the detector reserves terabytes).
func limitMemory() {
	if props.Variant != "race" {
		lim := uint64(6) << 30
		_ = syscall.Setrlimit(syscall.RLIMIT_AS, &syscall.Rlimit{Cur: lim, Max: lim})
	}
}

// cpuNanos is the CPU time (user+system) this process has used.
func cpuNanos() int64 {
	var ru syscall.Rusage
	if syscall.Getrusage(syscall.RUSAGE_SELF, &ru) != nil {
		return 0
	}
	return ru.Utime.Nano() + ru.Stime.Nano()
}

func workerMain(args []string) int {
	fs := flag.NewFlagSet("worker", flag.ExitOnError)
	propID := fs.String("prop", "", "")
	engName := fs.String("engine", "", "")
	seed := fs.Uint64("seed", 0, "")
	start := fs.Uint64("start", 0, "")
	stride := fs.Uint64("stride", 1, "")
	limit := fs.Uint64("limit", 0, "run indices < limit (0 = none)")
	minRuns := fs.Uint64("min", 0, "with -deadline: run at least until index >= min")
	deadline := fs.Int64("deadline", 0, "unix seconds; 0 = none")
	only := fs.String("only", "", "comma list of run indices to run instead of the range")
	record := fs.String("record", "", "comma list of run indices whose digest to report")
	journal := fs.String("journal", "", "")
	outPath := fs.String("out", "", "")
	replayDir := fs.String("replaydir", "", "")
	known := fs.String("known", "", "")
	variant := fs.String("variant", "plain", "")
	maxShrink := fs.Int("maxshrink", 3, "violations to minimise per class")
	fs.Parse(args)

	p := props.Get(*propID)
	if p == nil {
		fmt.Fprintln(os.Stderr, "unknown property", *propID)
		return 2
	}
	eng := p.Engine(*engName)
	if eng == nil {
		fmt.Fprintln(os.Stderr, "unknown engine", *engName)
		return 2
	}
	limitMemory()
	findings, err := core.LoadFindings(*known)
	if err != nil {
		fmt.Fprintln(os.Stderr, "known findings:", err)
		return 2
	}
	core.ActiveFindings = findings
	var jf *os.File
	if *journal != "" {
		jf, err = os.OpenFile(*journal, os.O_CREATE|os.O_WRONLY|os.O_TRUNC, 0o644)
		if err != nil {
			fmt.Fprintln(os.Stderr, err)
			return 2
		}
	}

	// Watchdog on single runs, measured in CPU time of this process so that a
	// loaded machine cannot turn a slow run into a "hang" (an endless loop burns
	// CPU; a starved process does not). A wall-clock backstop (20x) catches a run
	// that blocks without using CPU.
	var runStarted atomic.Int64
	var runStartCPU atomic.Int64
	var curRun atomic.Uint64
	timeout := eng.RunTimeout
	if timeout == 0 {
		timeout = 60 * time.Second
	}
	go func() {
		lastProgress := int64(-1)
		// The verdict needs this goroutine to have looked often enough while the run was going on: a
		// machine that stood still (a VM snapshot, a stopped process) makes wall and CPU clocks jump
		// without the run having had that time. ticks counts looks at the same run without progress.
		ticks, lastRun := 0, ^uint64(0)
		minTicks := int(timeout / time.Second) // half of the looks a full timeout would see
		lastWake := time.Now()
		for {
			time.Sleep(500 * time.Millisecond)
			slept := time.Since(lastWake)
			lastWake = time.Now()
			st := runStarted.Load()
			if st == 0 {
				ticks = 0
				continue
			}
			if cr := curRun.Load(); cr != lastRun {
				lastRun, ticks = cr, 0
			}
			if slept > 5*time.Second {
				// this goroutine itself was held up: whatever the clocks say now, start over
				if runStarted.CompareAndSwap(st, time.Now().UnixNano()) {
					runStartCPU.Store(cpuNanos())
				}
				ticks = 0
				continue
			}
			ticks++
			if pr := atomic.LoadInt64(&core.Progress); pr != lastProgress {
				// the simulation scheduled something since the last look: the clocks start again
				// (a run that keeps scheduling is ended by its own step budget, not by this watchdog)
				if lastProgress >= 0 {
					if runStarted.CompareAndSwap(st, time.Now().UnixNano()) { // (not if the run ended meanwhile)
						runStartCPU.Store(cpuNanos())
					}
				}
				lastProgress = pr
				ticks = 0
				continue
			}
			cpu := time.Duration(cpuNanos() - runStartCPU.Load())
			wall := time.Since(time.Unix(0, st))
			if (cpu > timeout || wall > 20*timeout) && ticks >= minTicks {
				buf := make([]byte, 1<<18)
				n := runtime.Stack(buf, true)
				fmt.Fprintf(os.Stderr, "HANG run=%d engine=%s after %v of CPU time (%v wall)\n%s\nENDHANG\n", curRun.Load(), eng.Name, cpu.Round(time.Second), wall.Round(time.Second), buf[:n])
				os.Exit(7)
			}
		}
	}()

	t0 := time.Now()
	sum := &Summary{Engine: eng.Name, Faults: map[string]int64{}, Probes: map[string]int64{}, VCounts: map[string]int64{}, Recorded: map[string]string{}}
	nontriv := map[uint64]struct{}{}
	alld := map[uint64]struct{}{}
	scheds := map[uint64]struct{}{}
	states := map[uint64]struct{}{}
	shrunk := map[core.Class]int{}
	unlistedClasses := 0
	rec := parseList(*record)
	nt := p.NonTrivial
	if nt == nil {
		nt = props.DefaultNonTrivial
	}

	lastPartial := time.Now()
	runOne := func(i uint64) {
		rs := core.RunSeed(*seed, p.ID, eng.Name, i)
		if jf != nil {
			jf.WriteAt([]byte(fmt.Sprintf("%020d\n", i)), 0)
		}
		curRun.Store(i)
		runStartCPU.Store(cpuNanos())
		runStarted.Store(time.Now().UnixNano())
		src := core.NewRandomSource(rs)
		out := core.Execute(p.ID, eng.Name, eng.Run, src, false)
		runStarted.Store(0)
		sum.Runs++
		sum.Steps += out.Steps
		sum.Ops += out.Ops
		sum.Switches += out.Switches
		sum.Draws += int64(out.Draws)
		for k, v := range out.Faults {
			sum.Faults[k] += v
		}
		for k, v := range out.Probes {
			sum.Probes[k] += v
		}
		if len(alld) < setCap {
			alld[out.Digest] = struct{}{}
		} else {
			sum.Saturated = true
		}
		if nt(out) && len(nontriv) < setCap {
			nontriv[out.Digest] = struct{}{}
		}
		if out.Switches > 0 && len(scheds) < setCap {
			scheds[out.SchedHash] = struct{}{}
		}
		for k := range out.States {
			if len(states) < setCap {
				states[k] = struct{}{}
			}
		}
		if rec[i] {
			sum.Recorded[strconv.FormatUint(i, 10)] = fmt.Sprintf("%016x", out.Digest)
		}
		if out.Trouble != "" {
			if len(sum.Trouble) < 5 {
				sum.Trouble = append(sum.Trouble, fmt.Sprintf("run %d: %s", i, out.Trouble))
			}
			return
		}
		if len(sum.Samples) < 2 && nt(out) && len(out.Violations) == 0 {
			// render this run: replay its own trace with Keep on
			ks := core.NewReplaySource(core.Values(src.Rec))
			ko := core.Execute(p.ID, eng.Name, eng.Run, ks, true)
			tr := ko.Lines
			if len(tr) > 60 {
				tr = append(append([]string{}, tr[:45]...), fmt.Sprintf("... (%d more events)", len(ko.Lines)-45))
			}
			sum.Samples = append(sum.Samples, Sample{Engine: eng.Name, Run: i, Seed: rs, Draws: out.Draws, Trace: tr})
			if ko.Digest != out.Digest {
				sum.Trouble = append(sum.Trouble, fmt.Sprintf("run %d: replay of own trace gave digest %016x, original %016x (nondeterminism in the harness)", i, ko.Digest, out.Digest))
			}
		}
		for _, v := range out.Violations {
			sum.VCounts[v.Class.String()]++
			if findings.Known(v.Class) != nil {
				// a listed finding: one unminimised replay file per class is enough
				if shrunk[v.Class] >= 1 {
					continue
				}
				shrunk[v.Class]++
				vals := core.Values(src.Rec)
				ks := core.NewReplaySource(vals)
				ko := core.Execute(p.ID, eng.Name, eng.Run, ks, true)
				if !ko.HasClass(v.Class) {
					sum.Trouble = append(sum.Trouble, fmt.Sprintf("run %d: known-finding class %s did not reproduce from its own trace", i, v.Class))
					continue
				}
				rf := &core.ReplayFile{Property: p.ID, Engine: eng.Name, Variant: *variant, VerifSeed: *seed, Run: i, RunSeed: rs,
					Class: v.Class, Msg: v.Msg, Digest: fmt.Sprintf("%016x", ko.Digest), Values: vals, Trace: ko.Lines}
				if len(rf.Trace) > 200 {
					rf.Trace = rf.Trace[:200]
				}
				// one file per worker: workers of one engine must not write the same path concurrently
				path := filepath.Join(*replayDir, fmt.Sprintf("%s-%s-%016x-known-w%d.json", p.ID, eng.Name, core.HashString(v.Class.String()), *start))
				if err := rf.Write(path); err == nil {
					sum.Violations = append(sum.Violations, VRec{Class: v.Class, Msg: v.Msg, Replay: path, Run: i, Engine: eng.Name, Digest: rf.Digest})
				}
				continue
			}
			if shrunk[v.Class] >= *maxShrink || (shrunk[v.Class] == 0 && unlistedClasses >= int(envInt("VERIF_SHRINK_CLASSES", 40))) {
				continue
			}
			if shrunk[v.Class] == 0 {
				unlistedClasses++
			}
			shrunk[v.Class]++
			runStarted.Store(0) // shrinking has its own budget
			sr := core.Shrink(p.ID, eng.Name, eng.Run, src.Rec, v.Class, 6000, time.Duration(envInt("VERIF_SHRINK_S", 120))*time.Second)
			if sr.Outcome == nil {
				sum.Trouble = append(sum.Trouble, fmt.Sprintf("run %d: violation %s did not reproduce from its own trace (nondeterminism in the harness)", i, v.Class))
				continue
			}
			// final rendering run
			ks := core.NewReplaySource(sr.Values)
			ko := core.Execute(p.ID, eng.Name, eng.Run, ks, true)
			rf := &core.ReplayFile{Property: p.ID, Engine: eng.Name, Variant: *variant, VerifSeed: *seed, Run: i, RunSeed: rs,
				Class: v.Class, Digest: fmt.Sprintf("%016x", ko.Digest), Values: sr.Values, Choices: core.RenderChoices(ks.Rec), Trace: ko.Lines}
			for _, vv := range ko.Violations {
				if vv.Class == v.Class {
					rf.Msg = vv.Msg
				}
			}
			rf.Shrink.OriginalDraws = out.Draws
			rf.Shrink.Draws = len(sr.Values)
			rf.Shrink.Attempts = sr.Attempts
			rf.Shrink.Accepted = sr.Accepted
			if rf.Values == nil {
				rf.Values = []uint64{}
			}
			name := fmt.Sprintf("%s-%s-%016x-%d.json", p.ID, eng.Name, core.HashString(v.Class.String()), i)
			path := filepath.Join(*replayDir, name)
			if err := rf.Write(path); err != nil {
				sum.Trouble = append(sum.Trouble, "cannot write replay file: "+err.Error())
				continue
			}
			sum.Violations = append(sum.Violations, VRec{Class: v.Class, Msg: rf.Msg, Replay: path, Run: i, Engine: eng.Name, Digest: rf.Digest})
		}
	}

	if *only != "" {
		var idx []uint64
		for k := range parseList(*only) {
			idx = append(idx, k)
		}
		sort.Slice(idx, func(a, b int) bool { return idx[a] < idx[b] })
		for _, i := range idx {
			rec[i] = true
			runOne(i)
		}
	} else {
		for i := *start; ; i += *stride {
			if *limit != 0 && i >= *limit {
				break
			}
			if *deadline != 0 && i >= *minRuns && time.Now().Unix() >= *deadline {
				break
			}
			if *limit == 0 && *deadline == 0 {
				break
			}
			runOne(i)
			if len(sum.Trouble) >= 5 {
				break
			}
			if *outPath != "" && time.Since(lastPartial) > 3*time.Second {
				// light checkpoint (no digest sets): if this process is brought down by
				// a later run, the orchestrator keeps what was counted and found so far
				lastPartial = time.Now()
				cp := *sum
				cp.Digests, cp.Scheds, cp.States = nil, nil, nil
				cp.WallS = time.Since(t0).Seconds()
				if b, err := json.Marshal(&cp); err == nil {
					if os.WriteFile(*outPath+".partial.tmp", b, 0o644) == nil {
						os.Rename(*outPath+".partial.tmp", *outPath+".partial")
					}
				}
			}
		}
	}

	for k := range nontriv {
		sum.Digests = append(sum.Digests, k)
	}
	sum.AllDigests = int64(len(alld))
	for k := range scheds {
		sum.Scheds = append(sum.Scheds, k)
	}
	for k := range states {
		sum.States = append(sum.States, k)
	}
	sort.Slice(sum.Digests, func(a, b int) bool { return sum.Digests[a] < sum.Digests[b] })
	sort.Slice(sum.Scheds, func(a, b int) bool { return sum.Scheds[a] < sum.Scheds[b] })
	sort.Slice(sum.States, func(a, b int) bool { return sum.States[a] < sum.States[b] })
	sum.WallS = time.Since(t0).Seconds()
	b, _ := json.Marshal(sum)
	if *outPath == "" {
		os.Stdout.Write(b)
	} else if err := os.WriteFile(*outPath, b, 0o644); err != nil {
		fmt.Fprintln(os.Stderr, err)
		return 2
	}
	_ = runtime.NumGoroutine
	return 0
}
