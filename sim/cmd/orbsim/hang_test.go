package main

import (
	"os"
	"testing"
)

// TestHangDetail checks the attribution of a watchdog dump (file given by HANG_DUMP).
func TestHangDetail(t *testing.T) {
	f := os.Getenv("HANG_DUMP")
	if f == "" {
		t.Skip("no dump")
	}
	b, err := os.ReadFile(f)
	if err != nil {
		t.Fatal(err)
	}
	d := hangDetail(string(b))
	t.Logf("detail = %q", d)
	if d == "unknown" {
		t.Fatal("could not attribute")
	}
}
