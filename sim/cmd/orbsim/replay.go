package main

import (
	"flag"
	"fmt"
	"os"
	"strings"
	"sync/atomic"
	"time"

	"verif/sim/core"
	"verif/sim/props"
)

// replayMain re-executes a replay file. Exit 1 (with a VIOLATION line) when
// the recorded violation class occurs again, 0 when it does not, 2 on trouble.
// "REPRODUCED exact" is printed when the event-log digest matches as well.
func replayMain(args []string) int {
	fs := flag.NewFlagSet("replay", flag.ExitOnError)
	quiet := fs.Bool("quiet", false, "")
	known := fs.String("known", "", "")
	fs.Parse(args)
	if fs.NArg() != 1 {
		fmt.Fprintln(os.Stderr, "usage: orbsim replay <file>")
		return 2
	}
	path := fs.Arg(0)
	rf, err := core.ReadReplayFile(path)
	if err != nil {
		fmt.Fprintln(os.Stderr, err)
		return 2
	}
	p := props.Get(rf.Property)
	if p == nil {
		fmt.Fprintln(os.Stderr, "unknown property", rf.Property)
		return 2
	}
	e := p.Engine(rf.Engine)
	if e == nil {
		fmt.Fprintln(os.Stderr, "unknown engine", rf.Engine)
		return 2
	}
	limitMemory()
	core.ActiveFindings, _ = core.LoadFindings(*known)
	if rf.BySeed {
		// process-death finding: run it from its seed; if we are still alive
		// afterwards it did not reproduce.
		fmt.Printf("replaying run %d of %s/%s from its seed %d (process-death finding)\n", rf.Run, rf.Property, rf.Engine, rf.RunSeed)
		timeout := e.RunTimeout
		if timeout == 0 {
			timeout = 60 * time.Second
		}
		go func() { // same watchdog as the worker (CPU time): a hang brings this process down too
			c0, w0 := cpuNanos(), time.Now()
			lastProgress, ticks, lastWake := int64(-1), 0, time.Now()
			for {
				time.Sleep(500 * time.Millisecond)
				slept := time.Since(lastWake)
				lastWake = time.Now()
				if pr := atomic.LoadInt64(&core.Progress); pr != lastProgress || slept > 5*time.Second {
					// the simulation scheduled something, or this goroutine was held up: the clocks start again
					lastProgress, ticks = pr, 0
					c0, w0 = cpuNanos(), time.Now()
					continue
				}
				ticks++
				if (time.Duration(cpuNanos()-c0) > timeout || time.Since(w0) > 20*timeout) && ticks >= int(timeout/time.Second) {
					fmt.Fprintf(os.Stderr, "HANG run=%d engine=%s after %v of CPU time\n", rf.Run, e.Name, timeout)
					os.Exit(7)
				}
			}
		}()
		src := core.NewRandomSource(rf.RunSeed)
		out := core.Execute(p.ID, e.Name, e.Run, src, false)
		fmt.Printf("NOT REPRODUCED: the process survived (digest %016x)\n", out.Digest)
		return 0
	}
	src := core.NewReplaySource(rf.Values)
	out := core.Execute(p.ID, e.Name, e.Run, src, true)
	if out.Trouble != "" {
		fmt.Fprintln(os.Stderr, "HARNESS-TROUBLE:", out.Trouble)
		return 2
	}
	if !*quiet {
		fmt.Println("--- minimised choice trace")
		fmt.Println(strings.Join(core.RenderChoices(src.Rec), "\n"))
		fmt.Println("--- event log")
		fmt.Println(strings.Join(out.Lines, "\n"))
	}
	digest := fmt.Sprintf("%016x", out.Digest)
	if out.HasClass(rf.Class) {
		exact := ""
		if digest == rf.Digest {
			exact = " exact"
		}
		fmt.Printf("REPRODUCED%s class=%s digest=%s recorded=%s\n", exact, rf.Class, digest, rf.Digest)
		for _, v := range out.Violations {
			if v.Class == rf.Class && !*quiet {
				fmt.Println(v.Msg)
			}
		}
		if f, _ := core.LoadFindings(*known); f != nil && f.Known(rf.Class) != nil {
			fmt.Printf("KNOWN-FINDING: property=%s %s\n", rf.Property, f.Known(rf.Class).Text)
			return 0
		}
		fmt.Printf("VIOLATION property=%s replay=%s\n", rf.Property, path)
		return 1
	}
	fmt.Printf("NOT REPRODUCED class=%s digest=%s recorded=%s (violations now: %d)\n", rf.Class, digest, rf.Digest, len(out.Violations))
	return 0
}

// selftestMain prints the digests of the first n runs of every engine of a
// property (used by ./check selftest to diff across processes and GOMAXPROCS).
func selftestMain(args []string) int {
	fs := flag.NewFlagSet("selftest", flag.ExitOnError)
	propID := fs.String("prop", "", "")
	n := fs.Int("n", 40, "")
	seed := fs.Uint64("seed", 20260101, "")
	variant := fs.String("variant", "plain", "")
	fs.Parse(args)
	p := props.Get(*propID)
	if p == nil {
		return 2
	}
	for i := range p.Engines {
		e := &p.Engines[i]
		if e.External || e.Variant != *variant {
			continue
		}
		for r := 0; r < *n; r++ {
			src := core.NewRandomSource(core.RunSeed(*seed, p.ID, e.Name, uint64(r)))
			out := core.Execute(p.ID, e.Name, e.Run, src, false)
			fmt.Printf("%s %s %d %016x %d %d\n", p.ID, e.Name, r, out.Digest, out.Steps, len(out.Violations))
		}
	}
	return 0
}
