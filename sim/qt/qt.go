// Package qt is the quadtree workload and its list model, shared by C11
// (histories) and C19 (concurrent readers).
//
// Coordinates are dyadic (multiples of 1/16 inside a power-of-two bound) so
// that cell midpoints, squared distances and box tests are exact in float64:
// points on cell midlines and on the tree bound are common and no verdict
// hinges on a rounding.
package qt

import (
	"fmt"
	"math"
	"sort"

	"github.com/paulmach/orb"
	"github.com/paulmach/orb/quadtree"

	"verif/sim/core"
)

// Pt is the pointer type stored in the tree; identity is the Go pointer.
type Pt struct {
	ID int
	P  orb.Point
}

// PointHook / FilterHook are natural scheduling seams: user code the tree
// calls at every visited node. The simulator installs its Yield here.
var (
	PointHook  func()
	FilterHook func()
)

func (p *Pt) Point() orb.Point {
	if h := PointHook; h != nil {
		h()
	}
	return p.P
}

func (p *Pt) String() string { return fmt.Sprintf("#%d(%g,%g)", p.ID, p.P[0], p.P[1]) }

// World is the geometry of one run: the tree bound and the point alphabet.
type World struct {
	Bound orb.Bound
	W     float64     // half width
	H     float64     // half height (bounds are not always square)
	Pool  []orb.Point // alphabet of in-bound points
	Out   []orb.Point // points outside the bound
}

const grid = 16.0 // coordinates are multiples of 1/grid

// NewWorld draws a bound and a point alphabet of the given size.
func NewWorld(s *core.Source, alphabet int) *World {
	w := &World{}
	w.W = float64(int(1) << uint(s.Range(0, 3, "boundexp"))) // 1,2,4,8
	var ox, oy float64
	if s.Chance(1, 3, "offset") {
		ox = float64(s.Range(-4, 4, "ox")) * w.W
		oy = float64(s.Range(-4, 4, "oy")) * w.W
	}
	w.H = w.W
	switch s.Pick([]int{4, 1, 1, 1}, "aspect") {
	case 1:
		w.H = w.W / 2
	case 2:
		w.H = w.W * 2
	case 3:
		w.H = w.W * 1.5 // cell midlines are still dyadic
	}
	w.Bound = orb.Bound{Min: orb.Point{ox - w.W, oy - w.H}, Max: orb.Point{ox + w.W, oy + w.H}}
	for i := 0; i < alphabet; i++ {
		w.Pool = append(w.Pool, w.drawInside(s))
	}
	if w.W == 1 && w.H <= 1 && s.Chance(1, 6, "micro") {
		// a cluster of points 2^-24 apart: the tree must grow ~24 levels deep to
		// separate them (offsets stay exact in float64 because the bound is small)
		base := w.Pool[0]
		const eps = 1.0 / (1 << 24)
		for i := 1; i < len(w.Pool); i += 2 {
			p := orb.Point{base[0] + float64(s.Range(-3, 3, "mx"))*eps, base[1] + float64(s.Range(-3, 3, "my"))*eps}
			if w.Bound.Contains(p) {
				w.Pool[i] = p
			}
		}
	}
	for i := 0; i < 4; i++ {
		w.Out = append(w.Out, w.drawOutside(s))
	}
	return w
}

// coord draws one coordinate in [lo,hi] biased to midlines and edges.
func coord(s *core.Source, lo, hi float64) float64 {
	n := int((hi - lo) * grid)
	switch s.Pick([]int{4, 3, 2, 1}, "coordkind") {
	case 0: // anywhere on the 1/16 grid
		return lo + float64(s.Intn(n+1, "c"))/grid
	case 1: // on a midline of some depth: lo + k*(hi-lo)/2^d
		d := uint(s.Range(1, 4, "depth"))
		k := s.Intn((1<<d)+1, "k")
		return lo + float64(k)*(hi-lo)/float64(int(1)<<d)
	case 2: // one grid step next to a midline
		d := uint(s.Range(1, 3, "depth"))
		k := s.Intn((1<<d)+1, "k")
		v := lo + float64(k)*(hi-lo)/float64(int(1)<<d)
		if s.Bool("side") {
			v += 1 / grid
		} else {
			v -= 1 / grid
		}
		if v < lo {
			v = lo
		}
		if v > hi {
			v = hi
		}
		return v
	default: // on the bound
		if s.Bool("hi") {
			return hi
		}
		return lo
	}
}

func (w *World) drawInside(s *core.Source) orb.Point {
	return orb.Point{coord(s, w.Bound.Min[0], w.Bound.Max[0]), coord(s, w.Bound.Min[1], w.Bound.Max[1])}
}

func (w *World) drawOutside(s *core.Source) orb.Point {
	p := w.drawInside(s)
	if s.Chance(1, 3, "barely") {
		// the nearest float64 beyond one edge: outside by the smallest possible amount
		switch s.Intn(4, "outside") {
		case 0:
			p[0] = math.Nextafter(w.Bound.Max[0], math.Inf(1))
		case 1:
			p[0] = math.Nextafter(w.Bound.Min[0], math.Inf(-1))
		case 2:
			p[1] = math.Nextafter(w.Bound.Max[1], math.Inf(1))
		default:
			p[1] = math.Nextafter(w.Bound.Min[1], math.Inf(-1))
		}
		return p
	}
	step := float64(s.Range(1, 32, "outstep")) / grid
	switch s.Intn(4, "outside") {
	case 0:
		p[0] = w.Bound.Max[0] + step
	case 1:
		p[0] = w.Bound.Min[0] - step
	case 2:
		p[1] = w.Bound.Max[1] + step
	default:
		p[1] = w.Bound.Min[1] - step
	}
	return p
}

// QueryPoint draws a query location: a pool point, any grid point, or outside.
func (w *World) QueryPoint(s *core.Source) orb.Point {
	switch s.Pick([]int{4, 4, 1}, "qkind") {
	case 0:
		return w.Pool[s.Intn(len(w.Pool), "qpool")]
	case 1:
		return w.drawInside(s)
	default:
		return w.Out[s.Intn(len(w.Out), "qout")]
	}
}

// QueryBox draws a closed box (min <= max), sometimes degenerate, sometimes
// the whole bound, sometimes sticking out of it.
func (w *World) QueryBox(s *core.Source) orb.Bound {
	switch s.Pick([]int{6, 1, 1, 1}, "boxkind") {
	case 1:
		return w.Bound
	case 2:
		p := w.Pool[s.Intn(len(w.Pool), "boxpt")]
		return orb.Bound{Min: p, Max: p}
	case 3:
		return orb.Bound{Min: orb.Point{w.Bound.Min[0] - 1, w.Bound.Min[1] - 1}, Max: orb.Point{w.Bound.Max[0] + 1, w.Bound.Max[1] + 1}}
	}
	a, b := w.QueryPoint(s), w.QueryPoint(s)
	bb := orb.Bound{Min: a, Max: a}
	return bb.Extend(b)
}

// Filter is a drawn, pure predicate on pointer ids.
type Filter struct {
	Mod, Rem int // accept when id%Mod != Rem (Mod 0: accept all)
	// Reenter: when used by a query, the predicate itself searches the same tree
	// (a nested read-only query while the outer one is in progress) before it answers
	Reenter bool
}

func DrawFilter(s *core.Source) *Filter {
	f := &Filter{}
	switch s.Pick([]int{2, 3, 1}, "filterkind") {
	case 0:
		f.Mod = 0
	case 1:
		f.Mod = s.Range(2, 5, "mod")
		f.Rem = s.Intn(f.Mod, "rem")
	default:
		f.Mod = 1 // reject everything (id%1 == 0 == Rem)
		f.Rem = 0
	}
	f.Reenter = s.Chance(1, 10, "reenter")
	return f
}

func (f *Filter) Accept(id int) bool {
	if f == nil || f.Mod == 0 {
		return true
	}
	return id%f.Mod != f.Rem
}

func (f *Filter) Func() quadtree.FilterFunc {
	if f == nil {
		return nil
	}
	return func(p orb.Pointer) bool {
		if h := FilterHook; h != nil {
			h()
		}
		return f.Accept(p.(*Pt).ID)
	}
}

// filter is the predicate handed to the tree for this query.
func (q *Query) filter(tr *quadtree.Quadtree) quadtree.FilterFunc {
	f := q.F.Func()
	if q.F == nil || !q.F.Reenter {
		return f
	}
	return func(p orb.Pointer) bool {
		// nested searches on the same tree; their results are checked for plausibility only
		if x, ok := p.(*Pt); ok && x != nil {
			if got := tr.Find(x.P); got == nil {
				panic("harness: nested Find returned nil on a tree that holds the pointer being filtered")
			}
			tr.KNearest(nil, x.P, 2)
		}
		return f(p)
	}
}

func (f *Filter) String() string {
	if f == nil {
		return "nofilter"
	}
	if f.Reenter {
		g := *f
		g.Reenter = false
		return g.String() + "+nested-queries"
	}
	if f.Mod == 0 {
		return "filter(all)"
	}
	return fmt.Sprintf("filter(id%%%d!=%d)", f.Mod, f.Rem)
}

// Model is the list of live pointers.
type Model struct {
	Live []*Pt
}

func (m *Model) Add(p *Pt) { m.Live = append(m.Live, p) }

func (m *Model) RemoveIdentity(p *Pt) bool {
	for i, x := range m.Live {
		if x == p {
			m.Live = append(m.Live[:i], m.Live[i+1:]...)
			return true
		}
	}
	return false
}

func dist2(a, b orb.Point) float64 {
	dx, dy := a[0]-b[0], a[1]-b[1]
	return dx*dx + dy*dy
}

// Candidates returns the accepted live pointers with their squared distances, sorted by distance.
func (m *Model) Candidates(q orb.Point, f *Filter) []float64 {
	var ds []float64
	for _, x := range m.Live {
		if f.Accept(x.ID) {
			ds = append(ds, dist2(x.P, q))
		}
	}
	sort.Float64s(ds)
	return ds
}

// InBox returns the accepted live pointers in the closed box.
func (m *Model) InBox(b orb.Bound, f *Filter) []*Pt {
	var out []*Pt
	for _, x := range m.Live {
		if !f.Accept(x.ID) {
			continue
		}
		if x.P[0] >= b.Min[0] && x.P[0] <= b.Max[0] && x.P[1] >= b.Min[1] && x.P[1] <= b.Max[1] {
			out = append(out, x)
		}
	}
	return out
}

// counts: how many times each pointer is stored (the contents are a multiset).
func (m *Model) counts() map[*Pt]int {
	c := make(map[*Pt]int, len(m.Live))
	for _, x := range m.Live {
		c[x]++
	}
	return c
}

func (m *Model) has(p *Pt) bool {
	for _, x := range m.Live {
		if x == p {
			return true
		}
	}
	return false
}

// Query is one read-only query with its arguments.
type Query struct {
	Kind    int // QFind..QInBoundMatching
	P       orb.Point
	Box     orb.Bound
	K       int
	MaxDist float64 // <0: not given
	F       *Filter
	Limit   []float64 // the variadic maxDistance as the caller holds it: one slice, passed with "..." every time the query runs
	// Win: the buffer is this window of a larger array the caller shares out among its queries
	// (big[i*k:(i+1)*k]: length k, capacity to the end of the array). A k-nearest query fills at
	// most its k slots; what lies behind them belongs to other queries.
	Win    []orb.Pointer
	BufCap int // -1: nil buffer; Chain: the caller's previous result is handed back as the buffer
}

// Chain is the BufCap of a query that reuses the previous result of the same
// caller as its buffer (the documented idiom: buf = tree.InBound(buf, box)).
const Chain = -2

const (
	QFind = iota
	QMatching
	QKNearest
	QKNearestMatching
	QInBound
	QInBoundMatching
	NumQueryKinds
)

var QueryNames = [...]string{"Find", "Matching", "KNearest", "KNearestMatching", "InBound", "InBoundMatching"}

// DrawQuery draws a query of the given kind (or any kind when kind<0).
func (w *World) DrawQuery(s *core.Source, kind int) *Query {
	if kind < 0 {
		kind = s.Intn(NumQueryKinds, "qtype")
	}
	q := &Query{Kind: kind, MaxDist: -1, BufCap: -1}
	switch kind {
	case QFind:
		q.P = w.QueryPoint(s)
	case QMatching:
		q.P = w.QueryPoint(s)
		q.F = DrawFilter(s)
	case QKNearest, QKNearestMatching:
		q.P = w.QueryPoint(s)
		q.K = 1 + s.Pick([]int{4, 3, 2, 1, 1, 1, 1, 1, 1}, "k") // 1..9
		if s.Chance(1, 8, "bigk") {
			q.K = s.Range(10, 80, "kbig")
			if s.Chance(1, 4, "hugek") {
				q.K = []int{127, 128, 129, 255, 256, 257, 300, 1000, 1023, 1024, 1025, 2500}[s.Intn(12, "khuge")]
			}
		}
		if s.Chance(1, 2, "maxdist") {
			// dyadic, so maxDist^2 is exact
			q.MaxDist = float64(s.Range(0, int(4*w.W*grid), "md")) / grid
			if s.Chance(1, 12, "zero-limit") {
				q.MaxDist = 0 // strictly within 0: nothing qualifies
			}
			q.Limit = []float64{q.MaxDist}
		}
		if kind == QKNearestMatching {
			q.F = DrawFilter(s)
		}
		if s.Chance(1, 2, "buf") {
			q.BufCap = s.Range(0, 12, "bufcap")
		} else if s.Chance(1, 3, "chain") {
			q.BufCap = Chain
		}
	case QInBound, QInBoundMatching:
		q.Box = w.QueryBox(s)
		if kind == QInBoundMatching {
			q.F = DrawFilter(s)
		}
		if s.Chance(1, 2, "buf") {
			q.BufCap = s.Range(0, 12, "bufcap")
		} else if s.Chance(1, 3, "chain") {
			q.BufCap = Chain
		}
	}
	return q
}

func (q *Query) String() string {
	switch q.Kind {
	case QFind:
		return fmt.Sprintf("Find(%v)", q.P)
	case QMatching:
		return fmt.Sprintf("Matching(%v,%v)", q.P, q.F)
	case QKNearest, QKNearestMatching:
		md := "none"
		if q.MaxDist >= 0 {
			md = fmt.Sprint(q.MaxDist)
		}
		return fmt.Sprintf("%s(%v,k=%d,maxDist=%s,%v,bufcap=%d)", QueryNames[q.Kind], q.P, q.K, md, q.F, q.BufCap)
	default:
		return fmt.Sprintf("%s(%v..%v,%v,bufcap=%d)", QueryNames[q.Kind], q.Box.Min, q.Box.Max, q.F, q.BufCap)
	}
}

// sentinel fills caller-supplied buffers so stale entries are recognisable.
var sentinel = &Pt{ID: -1}

func (q *Query) buf(prev []orb.Pointer) []orb.Pointer {
	if q.Win != nil {
		for i := range q.Win {
			q.Win[i] = sentinel
		}
		return q.Win
	}
	if q.BufCap == Chain {
		return prev
	}
	if q.BufCap < 0 {
		return nil
	}
	b := make([]orb.Pointer, q.BufCap)
	for i := range b {
		b[i] = sentinel
	}
	return b
}

// Result is what a query returned.
type Result struct {
	One   orb.Pointer   // Find/Matching
	Many  []orb.Pointer // KNearest*/InBound*
	IsOne bool
}

// Carve hands the k-nearest queries among qs (k <= maxK) adjacent windows of one
// array as their buffers and returns how many got one.
func Carve(qs []*Query, maxK int) int {
	total := 0
	for _, q := range qs {
		if (q.Kind == QKNearest || q.Kind == QKNearestMatching) && q.K <= maxK {
			total += q.K
		}
	}
	if total == 0 {
		return 0
	}
	big := make([]orb.Pointer, total+4)
	for i := range big {
		big[i] = sentinel
	}
	off, n := 0, 0
	for _, q := range qs {
		if (q.Kind == QKNearest || q.Kind == QKNearestMatching) && q.K <= maxK {
			q.Win = big[off : off+q.K]
			off += q.K
			n++
		}
	}
	return n
}

// Exec runs the query against the tree (a chained query gets no buffer).
func (q *Query) Exec(tr *quadtree.Quadtree) Result { return q.ExecBuf(tr, nil) }

// Clone returns the result with its own copy of the slice.
func (r Result) Clone() Result {
	if r.Many != nil {
		r.Many = append(make([]orb.Pointer, 0, len(r.Many)), r.Many...)
	}
	return r
}

// ExecBuf runs the query; prev is the slice the caller got from its previous
// query, which a chained query hands back as its buffer.
func (q *Query) ExecBuf(tr *quadtree.Quadtree, prev []orb.Pointer) Result {
	switch q.Kind {
	case QFind:
		return Result{One: tr.Find(q.P), IsOne: true}
	case QMatching:
		return Result{One: tr.Matching(q.P, q.filter(tr)), IsOne: true}
	case QKNearest:
		if q.MaxDist >= 0 {
			if q.Limit == nil {
				q.Limit = []float64{q.MaxDist}
			}
			return Result{Many: tr.KNearest(q.buf(prev), q.P, q.K, q.Limit...)}
		}
		return Result{Many: tr.KNearest(q.buf(prev), q.P, q.K)}
	case QKNearestMatching:
		if q.MaxDist >= 0 {
			if q.Limit == nil {
				q.Limit = []float64{q.MaxDist}
			}
			return Result{Many: tr.KNearestMatching(q.buf(prev), q.P, q.K, q.filter(tr), q.Limit...)}
		}
		return Result{Many: tr.KNearestMatching(q.buf(prev), q.P, q.K, q.filter(tr))}
	case QInBound:
		return Result{Many: tr.InBound(q.buf(prev), q.Box)}
	default:
		return Result{Many: tr.InBoundMatching(q.buf(prev), q.Box, q.filter(tr))}
	}
}

// SameAs compares two results exactly (same pointers, same order, same length).
func (r Result) SameAs(o Result) bool {
	if r.IsOne != o.IsOne {
		return false
	}
	if r.IsOne {
		return r.One == o.One
	}
	if len(r.Many) != len(o.Many) {
		return false
	}
	for i := range r.Many {
		if r.Many[i] != o.Many[i] {
			return false
		}
	}
	return true
}

func (r Result) String() string {
	if r.IsOne {
		if r.One == nil {
			return "nil"
		}
		return fmt.Sprint(r.One)
	}
	return fmt.Sprint(r.Many)
}

// Check compares a query result with the list model; ties are free.
// It returns a non-empty oracle id and message on disagreement.
func (m *Model) Check(q *Query, r Result) (oracle, msg string) {
	name := QueryNames[q.Kind]
	if q.Limit != nil && (len(q.Limit) != 1 || q.Limit[0] != q.MaxDist) {
		return "argument-changed", fmt.Sprintf("%s changed the caller's maxDistance argument slice: it held [%g], now %v", name, q.MaxDist, q.Limit)
	}
	var cnt map[*Pt]int
	count := func(x *Pt) int {
		if cnt == nil {
			cnt = m.counts()
		}
		return cnt[x]
	}
	asPt := func(p orb.Pointer) (*Pt, string) {
		x, ok := p.(*Pt)
		if !ok || x == nil {
			return nil, fmt.Sprintf("%s returned a non-stored value %v", name, p)
		}
		if x == sentinel {
			return nil, fmt.Sprintf("%s returned a stale buffer entry", name)
		}
		if count(x) == 0 {
			return nil, fmt.Sprintf("%s returned %v which is not in the tree", name, x)
		}
		if !q.F.Accept(x.ID) {
			return nil, fmt.Sprintf("%s returned %v which the filter rejects", name, x)
		}
		return x, ""
	}
	switch q.Kind {
	case QFind, QMatching:
		ds := m.Candidates(q.P, q.F)
		if len(ds) == 0 {
			if r.One != nil {
				return "nearest", fmt.Sprintf("%s returned %v but no stored pointer qualifies", name, r.One)
			}
			return "", ""
		}
		if r.One == nil {
			return "nearest", fmt.Sprintf("%s returned nil but %d stored pointers qualify", name, len(ds))
		}
		x, bad := asPt(r.One)
		if bad != "" {
			return "nearest", bad
		}
		if d := dist2(x.P, q.P); d != ds[0] {
			return "nearest", fmt.Sprintf("%s returned %v at squared distance %g, minimum is %g", name, x, d, ds[0])
		}
	case QKNearest, QKNearestMatching:
		ds := m.Candidates(q.P, q.F)
		if q.MaxDist >= 0 {
			lim := q.MaxDist * q.MaxDist
			n := 0
			for n < len(ds) && ds[n] < lim {
				n++
			}
			ds = ds[:n]
		}
		if len(ds) > q.K {
			ds = ds[:q.K]
		}
		if len(r.Many) != len(ds) {
			return "knearest", fmt.Sprintf("%s returned %d pointers, want %d", name, len(r.Many), len(ds))
		}
		seen := map[*Pt]int{}
		for i, p := range r.Many {
			x, bad := asPt(p)
			if bad != "" {
				return "knearest", bad
			}
			seen[x]++
			if seen[x] > count(x) {
				return "knearest", fmt.Sprintf("%s returned %v more often than it is stored", name, x)
			}
			if d := dist2(x.P, q.P); d != ds[i] {
				return "knearest", fmt.Sprintf("%s result %d is %v at squared distance %g, the %d-th smallest is %g", name, i, x, d, i, ds[i])
			}
		}
	default:
		want := m.InBox(q.Box, q.F)
		if len(r.Many) != len(want) {
			return "inbound", fmt.Sprintf("%s returned %d pointers, want %d", name, len(r.Many), len(want))
		}
		seen := map[*Pt]int{}
		for _, p := range r.Many {
			x, bad := asPt(p)
			if bad != "" {
				return "inbound", bad
			}
			seen[x]++
			if seen[x] > count(x) {
				return "inbound", fmt.Sprintf("%s returned %v more often than it is stored", name, x)
			}
			if x.P[0] < q.Box.Min[0] || x.P[0] > q.Box.Max[0] || x.P[1] < q.Box.Min[1] || x.P[1] > q.Box.Max[1] {
				return "inbound", fmt.Sprintf("%s returned %v outside the box", name, x)
			}
		}
	}
	return "", ""
}

// Contents lists what the tree holds, through a full-bound search widened by
// one unit (points on the bound are inside the closed box either way).
func Contents(tr *quadtree.Quadtree) []orb.Pointer {
	b := tr.Bound()
	b.Min[0]--
	b.Min[1]--
	b.Max[0]++
	b.Max[1]++
	return tr.InBound(nil, b)
}

// CheckContents compares the tree's contents with the model as multisets of identities.
func (m *Model) CheckContents(tr *quadtree.Quadtree) string {
	got := Contents(tr)
	if len(got) != len(m.Live) {
		return fmt.Sprintf("tree holds %d pointers, model %d", len(got), len(m.Live))
	}
	cnt := m.counts()
	seen := make(map[*Pt]int, len(got))
	for _, p := range got {
		x, ok := p.(*Pt)
		if !ok || x == nil || cnt[x] == 0 {
			return fmt.Sprintf("tree holds %v which was never added or was removed", p)
		}
		seen[x]++
		if seen[x] > cnt[x] {
			return fmt.Sprintf("tree holds %v %d times, it was added %d times", x, seen[x], cnt[x])
		}
	}
	return ""
}
