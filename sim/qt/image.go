package qt

import (
	"math"
	"reflect"
	"unsafe"

	"github.com/paulmach/orb/verifrt"

	"verif/sim/core"
)

// Image is a deep hash of an object graph, unexported fields included. It is
// generic over layout: a cache field, scratch slice or memo added to the tree
// by a future change is hashed too. Pointer identities are part of the hash,
// so it is only comparable within one process (it never enters the event log).
func Image(root interface{}) (hash uint64, nodes int) {
	w := &imager{seen: map[uintptr]bool{}}
	v := reflect.ValueOf(root)
	w.walk(v, 0)
	return w.h, w.nodes
}

type imager struct {
	h     uint64
	seen  map[uintptr]bool
	nodes int
}

func (w *imager) mix(v uint64) { w.h = core.Mix(w.h, v) }

func (w *imager) walk(v reflect.Value, depth int) {
	if depth > 10000 {
		return
	}
	switch v.Kind() {
	case reflect.Invalid:
		w.mix(0xdead)
	case reflect.Bool:
		if v.Bool() {
			w.mix(1)
		} else {
			w.mix(2)
		}
	case reflect.Int, reflect.Int8, reflect.Int16, reflect.Int32, reflect.Int64:
		w.mix(uint64(v.Int()))
	case reflect.Uint, reflect.Uint8, reflect.Uint16, reflect.Uint32, reflect.Uint64, reflect.Uintptr:
		w.mix(v.Uint())
	case reflect.Float32, reflect.Float64:
		w.mix(math.Float64bits(v.Float()))
	case reflect.Complex64, reflect.Complex128:
		c := v.Complex()
		w.mix(math.Float64bits(real(c)))
		w.mix(math.Float64bits(imag(c)))
	case reflect.String:
		w.mix(core.HashString(v.String()))
	case reflect.Ptr:
		if v.IsNil() {
			w.mix(0x11)
			return
		}
		p := v.Pointer()
		w.mix(uint64(p))
		if w.seen[p] {
			return
		}
		w.seen[p] = true
		w.nodes++
		w.walk(v.Elem(), depth+1)
	case reflect.Interface:
		if v.IsNil() {
			w.mix(0x12)
			return
		}
		w.mix(core.HashString(v.Elem().Type().String()))
		w.walk(v.Elem(), depth+1)
	case reflect.Struct:
		if pk := v.Type().PkgPath(); pk == "sync" || pk == "sync/atomic" {
			// synchronisation objects (a mutex serialising readers, an atomic counter) are
			// not tree data: a correctly locked implementation must not be flagged for
			// taking its own lock. What they protect is still hashed.
			return
		}
		t := v.Type()
		for i := 0; i < v.NumField(); i++ {
			// Usage counters: integer fields that library code only ever increments (or
			// returns from a getter) cannot influence an answer and are not part of the
			// tree. Which fields those are is decided statically by the instrumenter
			// (verifrt.CounterOnlyFields); a field that is loaded anywhere else is hashed.
			if verifrt.CounterOnlyFields[t.PkgPath()+"."+t.Name()+"."+t.Field(i).Name] {
				continue
			}
			w.walk(v.Field(i), depth+1)
		}
	case reflect.Array:
		for i := 0; i < v.Len(); i++ {
			w.walk(v.Index(i), depth+1)
		}
	case reflect.Slice:
		if v.IsNil() {
			w.mix(0x13)
			return
		}
		w.mix(uint64(v.Pointer()))
		w.mix(uint64(v.Len()))
		w.mix(uint64(v.Cap()))
		// hash up to cap: a scratch buffer reset to [:0] still shows its contents
		full := v
		if v.Cap() > v.Len() {
			// a view over the whole backing array
			full = reflect.NewAt(reflect.ArrayOf(v.Cap(), v.Type().Elem()), unsafe.Pointer(v.Pointer())).Elem()
		}
		for i := 0; i < full.Len(); i++ {
			w.walk(full.Index(i), depth+1)
		}
	case reflect.Map:
		if v.IsNil() {
			w.mix(0x14)
			return
		}
		w.mix(uint64(v.Pointer()))
		w.mix(uint64(v.Len()))
		// order-free combination of the entries
		var sum uint64
		it := v.MapRange()
		for it.Next() {
			sub := &imager{seen: w.seen}
			sub.walk(it.Key(), depth+1)
			sub.walk(it.Value(), depth+1)
			sum += sub.h
			w.nodes += sub.nodes
		}
		w.mix(sum)
	case reflect.Func, reflect.Chan, reflect.UnsafePointer:
		if v.IsNil() {
			w.mix(0x15)
			return
		}
		w.mix(uint64(v.Pointer()))
	}
}
