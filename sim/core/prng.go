// Package core holds the pieces every simulated check shares: the PRNG, the
// recorded choice stream, the run context (event log, counters, violations),
// the trace shrinker and the replay file format.
package core

// SplitMix64 is used for seed derivation only.
func SplitMix64(x uint64) uint64 {
	x += 0x9e3779b97f4a7c15
	z := x
	z = (z ^ (z >> 30)) * 0xbf58476d1ce4e5b9
	z = (z ^ (z >> 27)) * 0x94d049bb133111eb
	return z ^ (z >> 31)
}

// HashString is FNV-1a 64; stable across Go versions (no maphash, no runtime seed).
func HashString(s string) uint64 {
	h := uint64(14695981039346656037)
	for i := 0; i < len(s); i++ {
		h ^= uint64(s[i])
		h *= 1099511628211
	}
	return h
}

// Mix folds v into h.
func Mix(h, v uint64) uint64 {
	h ^= v + 0x9e3779b97f4a7c15 + (h << 6) + (h >> 2)
	return SplitMix64(h)
}

// RunSeed derives the seed of run i of (property, engine) from the batch seed.
func RunSeed(batch uint64, property, engine string, i uint64) uint64 {
	h := SplitMix64(batch ^ HashString(property+"/"+engine))
	return SplitMix64(h + i*0x9e3779b97f4a7c15)
}

// Xoshiro is xoshiro256**; implemented here so the stream does not depend on
// the Go release the harness is built with.
type Xoshiro struct{ s [4]uint64 }

func NewXoshiro(seed uint64) *Xoshiro {
	x := &Xoshiro{}
	for i := range x.s {
		seed = SplitMix64(seed)
		x.s[i] = seed
	}
	if x.s[0]|x.s[1]|x.s[2]|x.s[3] == 0 {
		x.s[0] = 1
	}
	return x
}

func rotl(x uint64, k uint) uint64 { return (x << k) | (x >> (64 - k)) }

func (x *Xoshiro) Next() uint64 {
	r := rotl(x.s[1]*5, 7) * 9
	t := x.s[1] << 17
	x.s[2] ^= x.s[0]
	x.s[3] ^= x.s[1]
	x.s[1] ^= x.s[2]
	x.s[0] ^= x.s[3]
	x.s[2] ^= t
	x.s[3] = rotl(x.s[3], 45)
	return r
}

// Below returns a uniform value in [0,n); n==0 means the full 64-bit range.
func (x *Xoshiro) Below(n uint64) uint64 {
	if n == 0 {
		return x.Next()
	}
	// rejection sampling, unbiased
	lim := ^uint64(0) - (^uint64(0) % n)
	for {
		v := x.Next()
		if v < lim {
			return v % n
		}
	}
}
