package core

// The choice stream. Every decision of a simulated run — generated values,
// which task runs next, which fault fires where, which order a map is iterated
// in — is one Draw on one Source. A recording Source is fed by the PRNG; a
// replaying Source is fed by a list of values (v mod n) and answers 0 once the
// list is exhausted. 0 is by construction the simplest choice everywhere (no
// fault, do not switch task, smallest size), so every prefix, deletion or
// lowering of a trace is again a valid run: that is what the shrinker needs.

// Entry kinds of a recorded trace.
const (
	KDraw  = 0
	KBegin = 1
	KEnd   = 2
)

// Entry is one element of the recorded trace.
type Entry struct {
	K byte
	V uint64 // value drawn (KDraw)
	N uint64 // exclusive bound, 0 = 2^64 (KDraw)
	L string // label (KDraw, KBegin)
}

// Source is the single stream of choices of one run.
type Source struct {
	rng    *Xoshiro
	replay []uint64
	pos    int
	// Rec is the trace recorded on this execution (also in replay mode: it is
	// the normalised trace of what the run actually consumed).
	Rec []Entry
	// Overrun counts draws answered with 0 after a replay list ran out.
	Overrun int
	// MaxDraws bounds a run; exceeding it panics with ErrTooManyDraws
	// (caught by the run wrapper, reported as harness trouble).
	MaxDraws int
	draws    int
}

// ErrTooManyDraws is the panic value when a run exceeds MaxDraws.
type ErrTooManyDraws struct{}

func NewRandomSource(seed uint64) *Source {
	return &Source{rng: NewXoshiro(seed), MaxDraws: 50_000_000}
}

func NewReplaySource(values []uint64) *Source {
	return &Source{replay: values, MaxDraws: 50_000_000}
}

// Draw returns a value in [0,n); n==0 means any uint64. n==1 consumes nothing.
func (s *Source) Draw(n uint64, label string) uint64 {
	if n == 1 {
		return 0
	}
	s.draws++
	if s.draws > s.MaxDraws {
		panic(ErrTooManyDraws{})
	}
	var v uint64
	if s.rng != nil {
		v = s.rng.Below(n)
	} else if s.pos < len(s.replay) {
		v = s.replay[s.pos]
		s.pos++
		if n != 0 {
			v %= n
		}
	} else {
		s.Overrun++
	}
	s.Rec = append(s.Rec, Entry{K: KDraw, V: v, N: n, L: label})
	return v
}

// Begin/End bracket one generated thing (operation, fault, task, element) so
// the shrinker can delete it as a unit.
func (s *Source) Begin(label string) { s.Rec = append(s.Rec, Entry{K: KBegin, L: label}) }
func (s *Source) End()               { s.Rec = append(s.Rec, Entry{K: KEnd}) }

// Draws is the number of draws consumed so far.
func (s *Source) Draws() int { return s.draws }

// Intn draws an int in [0,n).
func (s *Source) Intn(n int, label string) int {
	if n <= 0 {
		return 0
	}
	return int(s.Draw(uint64(n), label))
}

// Range draws an int in [lo,hi] (inclusive); lo is the simplest value.
func (s *Source) Range(lo, hi int, label string) int {
	if hi <= lo {
		return lo
	}
	return lo + s.Intn(hi-lo+1, label)
}

// Bool draws a coin; false is the simplest value.
func (s *Source) Bool(label string) bool { return s.Draw(2, label) == 1 }

// Chance is true with probability num/den; the draw 0 maps to false so that
// shrinking removes the event.
func (s *Source) Chance(num, den int, label string) bool {
	if num <= 0 {
		return false
	}
	if num >= den {
		// still record a draw so that traces keep their shape across knob changes
		s.Draw(uint64(den), label)
		return true
	}
	return s.Draw(uint64(den), label) >= uint64(den-num)
}

// Bits draws a full 64-bit value.
func (s *Source) Bits(label string) uint64 { return s.Draw(0, label) }

// Pick draws an index with the given weights; put the simplest alternative first.
func (s *Source) Pick(weights []int, label string) int {
	total := 0
	for _, w := range weights {
		if w > 0 {
			total += w
		}
	}
	if total == 0 {
		return 0
	}
	v := s.Intn(total, label)
	for i, w := range weights {
		if w <= 0 {
			continue
		}
		if v < w {
			return i
		}
		v -= w
	}
	return len(weights) - 1
}

// More is the loop condition for generated collections: `for s.More(...)`
// continues with probability (avg)/(avg+1) while under max; the element's draws
// should be bracketed with Begin/End by the caller *including* this draw when
// clean span deletion matters (see Repeat).
func (s *Source) More(count, avg, max int, label string) bool {
	if count >= max {
		return false
	}
	return s.Chance(avg, avg+1, label)
}

// Repeat generates between min and max elements, avg on average; every element
// (with its continuation coin) is one span.
func (s *Source) Repeat(min, avg, max int, label string, elem func(i int)) int {
	i := 0
	for i < max {
		s.Begin(label)
		if i >= min && !s.Chance(avg, avg+1, "more") {
			s.End()
			break
		}
		elem(i)
		s.End()
		i++
	}
	return i
}

// Values extracts the drawn values of a recorded trace.
func Values(rec []Entry) []uint64 {
	out := make([]uint64, 0, len(rec))
	for _, e := range rec {
		if e.K == KDraw {
			out = append(out, e.V)
		}
	}
	return out
}

// Span is a [From,To) range over draw indices.
type Span struct {
	From, To int
	Depth    int
	Label    string
}

// Spans lists the Begin/End spans of a trace in terms of draw indices.
func Spans(rec []Entry) []Span {
	var out []Span
	var stack []int
	di := 0
	for _, e := range rec {
		switch e.K {
		case KDraw:
			di++
		case KBegin:
			out = append(out, Span{From: di, To: -1, Depth: len(stack), Label: e.L})
			stack = append(stack, len(out)-1)
		case KEnd:
			if len(stack) > 0 {
				out[stack[len(stack)-1]].To = di
				stack = stack[:len(stack)-1]
			}
		}
	}
	// spans left open by an aborted run end at the last draw
	for _, i := range stack {
		out[i].To = di
	}
	return out
}
