package core

import (
	"encoding/json"
	"fmt"
	"os"
	"strconv"
	"strings"
)

// ReplayFile is what a VIOLATION line points at: the minimised choice trace
// plus a rendering a human can read. Replaying it is a pure function of
// (code, Values).
type ReplayFile struct {
	Property  string   `json:"property"`
	Engine    string   `json:"engine"`
	Variant   string   `json:"variant"`
	VerifSeed uint64   `json:"verif_seed"`
	Run       uint64   `json:"run"`
	RunSeed   uint64   `json:"run_seed"`
	BySeed    bool     `json:"by_seed,omitempty"` // no trace: re-run from RunSeed (process-death findings)
	Class     Class    `json:"class"`
	Msg       string   `json:"msg"`
	Digest    string   `json:"digest"`
	Values    U64s     `json:"values"`
	Choices   []string `json:"choices"` // "label=v/n" rendering of Values, with span structure
	Trace     []string `json:"trace"`   // rendered event log of the minimised run
	Shrink    struct {
		OriginalDraws int `json:"original_draws"`
		Draws         int `json:"draws"`
		Attempts      int `json:"attempts"`
		Accepted      int `json:"accepted"`
	} `json:"shrink"`
}

// U64s is a list of draws, written as one comma-separated JSON string so
// that replay files stay readable.
type U64s []uint64

func (u U64s) MarshalJSON() ([]byte, error) {
	var sb strings.Builder
	sb.WriteByte('"')
	for i, v := range u {
		if i > 0 {
			sb.WriteByte(',')
		}
		sb.WriteString(strconv.FormatUint(v, 10))
	}
	sb.WriteByte('"')
	return []byte(sb.String()), nil
}

func (u *U64s) UnmarshalJSON(b []byte) error {
	var s string
	if err := json.Unmarshal(b, &s); err != nil {
		return err
	}
	*u = (*u)[:0]
	for _, f := range strings.Split(s, ",") {
		if f == "" {
			continue
		}
		v, err := strconv.ParseUint(f, 10, 64)
		if err != nil {
			return err
		}
		*u = append(*u, v)
	}
	return nil
}

// RenderChoices renders a recorded trace with its span structure.
func RenderChoices(rec []Entry) []string {
	var out []string
	depth := 0
	var line strings.Builder
	flush := func() {
		if line.Len() > 0 {
			out = append(out, line.String())
			line.Reset()
		}
	}
	for _, e := range rec {
		switch e.K {
		case KBegin:
			flush()
			line.WriteString(strings.Repeat("  ", depth) + "[" + e.L + "]")
			depth++
		case KEnd:
			flush()
			if depth > 0 {
				depth--
			}
		case KDraw:
			if line.Len() == 0 {
				line.WriteString(strings.Repeat("  ", depth))
			}
			if e.N == 0 {
				fmt.Fprintf(&line, " %s=%#x", e.L, e.V)
			} else {
				fmt.Fprintf(&line, " %s=%d/%d", e.L, e.V, e.N)
			}
			if line.Len() > 160 {
				flush()
			}
		}
		if len(out) > 3000 {
			out = append(out, "... (truncated)")
			return out
		}
	}
	flush()
	return out
}

func (r *ReplayFile) Write(path string) error {
	b, err := json.MarshalIndent(r, "", " ")
	if err != nil {
		return err
	}
	return os.WriteFile(path, append(b, '\n'), 0o644)
}

func ReadReplayFile(path string) (*ReplayFile, error) {
	b, err := os.ReadFile(path)
	if err != nil {
		return nil, err
	}
	r := &ReplayFile{}
	if err := json.Unmarshal(b, r); err != nil {
		return nil, err
	}
	return r, nil
}

// Finding is one entry of /verif/known_findings.json.
type Finding struct {
	Property string `json:"property"`
	Status   string `json:"status"` // "known" or "fixed"
	Match    struct {
		Oracle       string `json:"oracle"`
		APIPrefix    string `json:"api_prefix"`
		DetailPrefix string `json:"detail_prefix"`
	} `json:"match"`
	Commit string `json:"commit,omitempty"`
	Text   string `json:"text"`
}

type FindingsFile struct {
	Findings []Finding `json:"findings"`
}

func LoadFindings(path string) (*FindingsFile, error) {
	f := &FindingsFile{}
	b, err := os.ReadFile(path)
	if err != nil {
		if os.IsNotExist(err) {
			return f, nil
		}
		return nil, err
	}
	if err := json.Unmarshal(b, f); err != nil {
		return nil, err
	}
	return f, nil
}

// Known returns the listed finding a class belongs to, or nil. "fixed"
// entries suppress nothing.
func (f *FindingsFile) Known(c Class) *Finding {
	if f == nil {
		return nil
	}
	for i := range f.Findings {
		k := &f.Findings[i]
		if k.Status != "known" || k.Property != c.Property {
			continue
		}
		if k.Match.Oracle != c.Oracle {
			continue
		}
		if !strings.HasPrefix(c.API, k.Match.APIPrefix) || !strings.HasPrefix(c.Detail, k.Match.DetailPrefix) {
			continue
		}
		return k
	}
	return nil
}
