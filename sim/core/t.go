package core

import (
	"fmt"
	"os"
	"runtime"
	"sort"
	"strings"
)

var debugLog = os.Getenv("VERIF_DEBUG_LOG") != ""

// Progress counts scheduling events of the running simulation (the kernel adds
// to it). The worker's hang watchdog measures CPU time since the last change:
// a run that keeps scheduling is slow, not hung (its own step budget ends it).
var Progress int64

// Class identifies a kind of violation. Shrinking preserves the class; the
// known-findings file lists classes.
type Class struct {
	Property string `json:"property"`
	Oracle   string `json:"oracle"`
	API      string `json:"api"`
	Detail   string `json:"detail"`
}

func (c Class) String() string {
	return c.Property + "/" + c.Oracle + "/" + c.API + "/" + c.Detail
}

// Violation is one failed oracle.
type Violation struct {
	Class Class  `json:"class"`
	Msg   string `json:"msg"`
	Step  int64  `json:"step"`
}

// Outcome is everything a run reports.
type Outcome struct {
	Violations []Violation
	Digest     uint64 // hash of the event log
	Steps      int64  // logical steps (events)
	Ops        int64  // workload operations completed
	Switches   int64  // context switches
	SchedHash  uint64 // hash of the (task,site) switch sequence
	Faults     map[string]int64
	Probes     map[string]int64
	States     map[uint64]struct{} // property-specific state signatures reached
	Lines      []string            // rendered event log (when Keep)
	Trouble    string              // harness trouble (never a violation)
	Draws      int
}

// HasClass reports whether the outcome contains a violation of class c.
func (o *Outcome) HasClass(c Class) bool {
	for _, v := range o.Violations {
		if v.Class == c {
			return true
		}
	}
	return false
}

// T is the context of one simulated run.
type T struct {
	Property string
	Engine   string
	Src      *Source
	Keep     bool // keep rendered lines (replay, samples)
	Out      Outcome
	maxLines int
}

func NewT(property, engine string, src *Source, keep bool) *T {
	t := &T{Property: property, Engine: engine, Src: src, Keep: keep, maxLines: 4000}
	t.Out.Digest = HashString(property + "/" + engine)
	t.Out.Faults = map[string]int64{}
	t.Out.Probes = map[string]int64{}
	t.Out.States = map[uint64]struct{}{}
	return t
}

// Logf appends one event to the log: it is hashed into the digest and, when
// Keep is set, kept as text. Logging never draws and never reads a clock.
func (t *T) Logf(format string, a ...interface{}) {
	t.Out.Steps++
	if debugLog {
		fmt.Fprintf(os.Stderr, "LOG "+format+"\n", a...)
	}
	if t.Keep {
		s := fmt.Sprintf(format, a...)
		t.Out.Digest = Mix(t.Out.Digest, HashString(s))
		if len(t.Out.Lines) < t.maxLines {
			t.Out.Lines = append(t.Out.Lines, s)
		} else if len(t.Out.Lines) == t.maxLines {
			t.Out.Lines = append(t.Out.Lines, "... (log truncated)")
		}
		return
	}
	// Same digest without keeping the text.
	t.Out.Digest = Mix(t.Out.Digest, HashString(fmt.Sprintf(format, a...)))
}

// Event is a cheap log entry for hot loops: hashed as numbers, rendered lazily.
func (t *T) Event(kind string, a, b uint64) {
	t.Out.Steps++
	t.Out.Digest = Mix(Mix(Mix(t.Out.Digest, HashString(kind)), a), b)
	if t.Keep && len(t.Out.Lines) < t.maxLines {
		t.Out.Lines = append(t.Out.Lines, fmt.Sprintf("%s %d %d", kind, a, b))
	}
}

// Hash is a log entry that is only hashed (callers render it with Note when Keep is set).
func (t *T) Hash(a, b uint64) {
	t.Out.Steps++
	t.Out.Digest = Mix(Mix(t.Out.Digest, a), b)
}

// Note adds a rendered line that is not part of the digest (explanations).
func (t *T) Note(format string, a ...interface{}) {
	if t.Keep && len(t.Out.Lines) <= t.maxLines {
		t.Out.Lines = append(t.Out.Lines, "# "+fmt.Sprintf(format, a...))
	}
}

func (t *T) Fault(kind string)           { t.Out.Faults[kind]++ }
func (t *T) Probe(name string)           { t.Out.Probes[name]++ }
func (t *T) ProbeN(name string, n int64) { t.Out.Probes[name] += n }
func (t *T) State(sig string)            { t.State64(HashString(sig)) }
func (t *T) State64(sig uint64)          { t.Out.States[sig&^SpaceMask] = struct{}{} }

// SpaceMask: the top three bits of a state signature name a sub-space (0-7) so
// that coverage of small finite spaces can be reported separately.
const SpaceMask = uint64(7) << 61

// StateIn records a state signature in sub-space 1..7.
func (t *T) StateIn(space int, sig uint64) {
	t.Out.States[(sig&^SpaceMask)|uint64(space&7)<<61] = struct{}{}
}
func (t *T) Op() { t.Out.Ops++ }

// Violate records a failed oracle. It does not stop the run; callers return
// when going on would be meaningless.
func (t *T) Violate(oracle, api, detail, format string, a ...interface{}) {
	c := Class{Property: t.Property, Oracle: oracle, API: api, Detail: detail}
	msg := fmt.Sprintf(format, a...)
	if t.Keep {
		t.Note("VIOLATION %s: %s", c, msg)
	}
	for _, v := range t.Out.Violations {
		if v.Class == c {
			return
		}
	}
	if len(t.Out.Violations) < 16 {
		t.Out.Violations = append(t.Out.Violations, Violation{Class: c, Msg: msg, Step: t.Out.Steps})
	}
}

// ActiveFindings is the known-findings list of this process (set by main);
// it lets a run keep exploring after it met a listed finding.
var ActiveFindings *FindingsFile

// Unlisted is the number of recorded violations that are not listed findings.
func (t *T) Unlisted() int {
	n := 0
	for _, v := range t.Out.Violations {
		if ActiveFindings.Known(v.Class) == nil {
			n++
		}
	}
	return n
}

// Failed reports whether any violation has been recorded.
func (t *T) Failed() bool { return len(t.Out.Violations) > 0 }

// PanicInfo describes a recovered panic.
type PanicInfo struct {
	Value   string
	TopFunc string // innermost non-runtime frame
	TopFile string
	OrbFunc string // innermost frame inside github.com/paulmach/orb (not verifrt)
	OrbFile string
	Stack   string
	Funcs   []string // innermost first, runtime frames removed
}

// ClassDetail names where a panic belongs: the innermost frame when it is orb
// code; the innermost orb frame when the panic surfaced in the standard
// library below it; "dep:<package>" when it surfaced in a third-party
// dependency (so that a dependency's defect is not confused with orb's).
func (pi *PanicInfo) ClassDetail() string { return ClassifyStack(pi.Funcs) }

func isStdlib(fn string) bool {
	first := fn
	if i := strings.Index(first, "/"); i >= 0 {
		first = first[:i]
	} else {
		return true // "strings.ToLower", "sort.Sort": no path separator
	}
	return !strings.Contains(first, ".")
}

// ClassifyStack attributes a stack (innermost frame first): standard-library
// and runtime frames on top are skipped; the first frame below them names the
// culprit - the orb function, or "dep:<package>" for a third-party dependency.
func ClassifyStack(funcs []string) string {
	for _, f := range funcs {
		if strings.HasPrefix(f, "runtime.") || strings.HasPrefix(f, "verif/") || strings.HasPrefix(f, "main.") {
			continue
		}
		if strings.HasPrefix(f, "github.com/paulmach/orb") {
			if strings.Contains(f, "/verifrt.") {
				continue
			}
			return f
		}
		if isStdlib(f) {
			continue
		}
		pkg := f
		if i := strings.LastIndex(pkg, "/"); i >= 0 {
			if j := strings.Index(pkg[i:], "."); j >= 0 {
				pkg = pkg[:i+j]
			}
		}
		return "dep:" + pkg
	}
	if len(funcs) > 0 {
		return funcs[0]
	}
	return "unknown"
}

// Catch runs f and returns a description of the panic it raised, or nil.
// Harness control-flow panics (stop sentinels) are re-raised.
func Catch(f func()) (pi *PanicInfo) {
	defer func() {
		if r := recover(); r != nil {
			if _, ok := r.(ErrTooManyDraws); ok {
				panic(r)
			}
			if _, ok := r.(Reraise); ok {
				panic(r)
			}
			pi = describePanic(r)
		}
	}()
	f()
	return nil
}

// Reraise marks harness panics that Catch must not swallow.
type Reraise interface{ HarnessPanic() }

// DescribePanic must be called from a deferred function while panicking.
func DescribePanic(r interface{}) *PanicInfo { return describePanic(r) }

func describePanic(r interface{}) *PanicInfo {
	pi := &PanicInfo{Value: fmt.Sprint(r)}
	if len(pi.Value) > 200 {
		pi.Value = pi.Value[:200]
	}
	pcs := make([]uintptr, 64)
	n := runtime.Callers(2, pcs)
	frames := runtime.CallersFrames(pcs[:n])
	var sb strings.Builder
	seenPanic := false
	for {
		fr, more := frames.Next()
		fn := fr.Function
		if !seenPanic {
			// skip everything up to and including runtime.gopanic & friends
			if strings.HasPrefix(fn, "runtime.") {
				if fn == "runtime.gopanic" || strings.HasPrefix(fn, "runtime.panic") || strings.HasPrefix(fn, "runtime.goPanic") || fn == "runtime.sigpanic" {
					seenPanic = true
				}
			}
			if !more {
				break
			}
			continue
		}
		if strings.HasPrefix(fn, "runtime.") {
			if !more {
				break
			}
			continue
		}
		fmt.Fprintf(&sb, "%s %s:%d\n", fn, shortFile(fr.File), fr.Line)
		pi.Funcs = append(pi.Funcs, fn)
		if pi.TopFunc == "" {
			pi.TopFunc = fn
			pi.TopFile = fmt.Sprintf("%s:%d", shortFile(fr.File), fr.Line)
		}
		if pi.OrbFunc == "" && strings.HasPrefix(fn, "github.com/paulmach/orb") && !strings.Contains(fn, "/verifrt.") {
			pi.OrbFunc = fn
			pi.OrbFile = fmt.Sprintf("%s:%d", shortFile(fr.File), fr.Line)
		}
		if !more {
			break
		}
	}
	pi.Stack = sb.String()
	return pi
}

func shortFile(f string) string {
	parts := strings.Split(f, "/")
	if len(parts) > 3 {
		parts = parts[len(parts)-3:]
	}
	return strings.Join(parts, "/")
}

// Guard runs f (a call into orb); a panic becomes a violation of oracle
// "no-panic" whose detail is the innermost non-runtime function.
func (t *T) Guard(api string, f func()) bool {
	pi := Catch(f)
	if pi == nil {
		return false
	}
	detail := pi.ClassDetail()
	t.Violate("no-panic", api, detail, "panic: %s\nat %s (orb frame: %s %s)\n%s", pi.Value, pi.TopFile, pi.OrbFunc, pi.OrbFile, pi.Stack)
	return true
}

// SortedKeys returns the keys of a counter map in order (the harness never
// relies on Go's map iteration order).
func SortedKeys(m map[string]int64) []string {
	ks := make([]string, 0, len(m))
	for k := range m {
		ks = append(ks, k)
	}
	sort.Strings(ks)
	return ks
}
