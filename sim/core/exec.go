package core

import (
	"fmt"
	"time"
)

// RunFunc is one simulated run: a pure function of the choice stream.
type RunFunc func(t *T)

// Execute runs fn on src and returns the outcome. A panic that escapes fn is
// a violation when an orb frame is on the stack (orb code panicked outside a
// Guard) and harness trouble otherwise.
func Execute(property, engine string, fn RunFunc, src *Source, keep bool) (out *Outcome) {
	t := NewT(property, engine, src, keep)
	defer func() {
		if r := recover(); r != nil {
			if _, ok := r.(ErrTooManyDraws); ok {
				t.Out.Trouble = "run exceeded the draw budget"
			} else {
				pi := describePanic(r)
				if pi.OrbFunc != "" {
					t.Violate("no-panic", "(unguarded)", pi.TopFunc, "panic: %s\n%s", pi.Value, pi.Stack)
				} else {
					t.Out.Trouble = fmt.Sprintf("harness panic: %s\n%s", pi.Value, pi.Stack)
				}
			}
		}
		t.Out.Draws = src.Draws()
		out = &t.Out
	}()
	fn(t)
	return
}

// ShrinkResult is the minimised trace of a violation.
type ShrinkResult struct {
	Values   []uint64
	Rec      []Entry
	Outcome  *Outcome
	Attempts int
	Accepted int
}

// Shrink minimises a failing trace while a violation of class c persists.
// Passes: delete spans (largest first), delete runs of draws, zero values,
// lower values by binary search; repeated until a fixpoint, the attempt budget
// or the deadline.
func Shrink(property, engine string, fn RunFunc, rec []Entry, c Class, maxAttempts int, maxTime time.Duration) ShrinkResult {
	deadline := time.Now().Add(maxTime) // wall clock only bounds the effort; the result is re-verified by replay
	best := ShrinkResult{Values: Values(rec), Rec: rec}
	try := func(vals []uint64) bool {
		if best.Attempts >= maxAttempts || time.Now().After(deadline) {
			return false
		}
		best.Attempts++
		src := NewReplaySource(vals)
		out := Execute(property, engine, fn, src, false)
		if out.Trouble != "" || !out.HasClass(c) {
			return false
		}
		nv := Values(src.Rec)
		// trailing zeros are implied
		for len(nv) > 0 && nv[len(nv)-1] == 0 {
			nv = nv[:len(nv)-1]
		}
		if !lessTrace(nv, best.Values) {
			return false
		}
		best.Values, best.Rec, best.Outcome = nv, src.Rec, out
		best.Accepted++
		return true
	}
	exhausted := func() bool { return best.Attempts >= maxAttempts || time.Now().After(deadline) }

	// normalise first (also verifies that replay reproduces the class at all)
	{
		src := NewReplaySource(best.Values)
		out := Execute(property, engine, fn, src, false)
		best.Attempts++
		if out.Trouble != "" || !out.HasClass(c) {
			return best // caller detects: Outcome == nil
		}
		nv := Values(src.Rec)
		for len(nv) > 0 && nv[len(nv)-1] == 0 {
			nv = nv[:len(nv)-1]
		}
		best.Values, best.Rec, best.Outcome = nv, src.Rec, out
	}

	for round := 0; round < 8 && !exhausted(); round++ {
		before := best.Accepted
		// 1. delete spans, largest first; after a success continue with the
		// recomputed span list at the same rank
		for i := 0; !exhausted(); {
			spans := Spans(best.Rec)
			for a := 1; a < len(spans); a++ {
				for b := a; b > 0 && (spans[b].To-spans[b].From) > (spans[b-1].To-spans[b-1].From); b-- {
					spans[b], spans[b-1] = spans[b-1], spans[b]
				}
			}
			if i >= len(spans) {
				break
			}
			sp := spans[i]
			if sp.To <= sp.From || sp.From >= len(best.Values) {
				i++
				continue
			}
			to := sp.To
			if to > len(best.Values) {
				to = len(best.Values)
			}
			cand := append(append([]uint64{}, best.Values[:sp.From]...), best.Values[to:]...)
			if !try(cand) {
				i++
			}
		}
		// 2. delete blocks of draws
		for _, k := range []int{32, 8, 4, 2, 1} {
			for i := len(best.Values) - k; i >= 0 && !exhausted(); i-- {
				if i+k > len(best.Values) {
					continue
				}
				cand := append(append([]uint64{}, best.Values[:i]...), best.Values[i+k:]...)
				try(cand)
			}
		}
		// 3. zero, then lower each value
		for i := 0; i < len(best.Values) && !exhausted(); i++ {
			if best.Values[i] == 0 {
				continue
			}
			cand := append([]uint64{}, best.Values...)
			cand[i] = 0
			if try(cand) {
				continue
			}
			lo, hi := uint64(0), best.Values[i] // lo fails, hi works
			for hi-lo > 1 && !exhausted() {
				mid := lo + (hi-lo)/2
				if i >= len(best.Values) {
					break
				}
				cand := append([]uint64{}, best.Values...)
				cand[i] = mid
				if try(cand) {
					if i < len(best.Values) {
						hi = best.Values[i]
					} else {
						break
					}
				} else {
					lo = mid
				}
			}
		}
		if best.Accepted == before {
			break
		}
	}
	return best
}

// lessTrace orders traces: shorter first, then lexicographically smaller.
func lessTrace(a, b []uint64) bool {
	if len(a) != len(b) {
		return len(a) < len(b)
	}
	for i := range a {
		if a[i] != b[i] {
			return a[i] < b[i]
		}
	}
	return false
}
