// Package gen holds the seeded workload generators (geometries, coordinates).
package gen

import (
	"fmt"
	"math"
	"strings"

	"github.com/paulmach/orb"

	"verif/sim/core"
)

// CoordMode selects the coordinate pool.
type CoordMode int

const (
	AnyBits   CoordMode = iota // every float64 bit pattern class incl. NaN payloads, Inf, -0, subnormals
	Finite                     // finite values over the whole range
	SmallInts                  // small integers (readable, exact)
)

// Coord draws one coordinate.
func Coord(s *core.Source, m CoordMode) float64 {
	switch m {
	case SmallInts:
		return float64(s.Range(-8, 8, "ci") + 8 - 8)
	case Finite:
		switch s.Pick([]int{4, 2, 2, 1}, "fk") {
		case 0:
			return float64(s.Range(0, 360, "deg")) - 180
		case 1:
			return (float64(s.Intn(1<<20, "frac")) - (1 << 19)) / 4096
		case 2:
			for {
				f := math.Float64frombits(s.Bits("bits"))
				if !math.IsNaN(f) && !math.IsInf(f, 0) {
					return f
				}
			}
		default:
			return []float64{0, math.Copysign(0, -1), math.MaxFloat64, -math.MaxFloat64, math.SmallestNonzeroFloat64, 1e-320, 1e21, 1e-5}[s.Intn(8, "special")]
		}
	}
	switch s.Pick([]int{4, 3, 2, 2, 1}, "ck") {
	case 0:
		return float64(s.Range(0, 16, "ci")) - 8
	case 1:
		return (float64(s.Intn(1<<20, "frac")) - (1 << 19)) / 4096
	case 2:
		return math.Float64frombits(s.Bits("bits"))
	case 3:
		// NaN payloads: quiet and signalling, both signs
		payload := s.Bits("payload") & 0x0007ffffffffffff
		bits := uint64(0x7ff0000000000000) | payload
		if s.Bool("quiet") {
			bits |= 0x0008000000000000
		} else if payload == 0 {
			bits |= 1 // a signalling NaN needs a non-zero payload
		}
		if s.Bool("neg") {
			bits |= 1 << 63
		}
		return math.Float64frombits(bits)
	default:
		return []float64{math.Copysign(0, -1), math.Inf(1), math.Inf(-1), math.MaxFloat64, -math.MaxFloat64,
			math.SmallestNonzeroFloat64, -math.SmallestNonzeroFloat64, math.Float64frombits(0x000fffffffffffff), 0,
			math.Float64frombits(0x7ff8000000000000), math.NaN(), math.Float64frombits(0xfff8000000000000), 1, -1}[s.Intn(14, "special")]
	}
}

// Opts bounds generated geometries.
type Opts struct {
	Mode      CoordMode
	MaxPoints int  // per line/ring (average is lower)
	MaxParts  int  // members of a multi geometry / rings of a polygon
	MaxDepth  int  // collection nesting
	TopNil    bool // allow nil interface / nil-slice values at the top level
	RingBound bool // allow orb.Ring and orb.Bound (encoded as the polygon they denote)
}

func DefaultOpts() Opts {
	return Opts{Mode: AnyBits, MaxPoints: 12, MaxParts: 4, MaxDepth: 4, TopNil: true, RingBound: true}
}

func point(s *core.Source, o Opts) orb.Point {
	x := Coord(s, o.Mode)
	if s.Chance(1, 10, "samexy") {
		return orb.Point{x, x} // both coordinates the very same bit pattern
	}
	return orb.Point{x, Coord(s, o.Mode)}
}

func points(s *core.Source, o Opts, min int) []orb.Point {
	ps := []orb.Point{}
	s.Repeat(min, 3, o.MaxPoints, "pt", func(int) { ps = append(ps, point(s, o)) })
	return ps
}

func ring(s *core.Source, o Opts) orb.Ring {
	r := orb.Ring(points(s, o, 0))
	if len(r) > 2 && s.Bool("close") {
		r = append(r, r[0])
	}
	return r
}

func polygon(s *core.Source, o Opts) orb.Polygon {
	p := orb.Polygon{}
	s.Repeat(0, 1, o.MaxParts, "ring", func(int) { p = append(p, ring(s, o)) })
	return p
}

// Kind indexes: Point simplest.
const (
	KPoint = iota
	KMultiPoint
	KLineString
	KMultiLineString
	KPolygon
	KMultiPolygon
	KCollection
	KRing
	KBound
)

// Geometry draws a geometry of any kind. Members of multi geometries and
// collections are never nil (they may be empty).
func Geometry(s *core.Source, o Opts) orb.Geometry {
	if o.TopNil && s.Chance(1, 24, "nil") {
		switch s.Intn(8, "nilkind") {
		case 0:
			return nil
		case 1:
			return orb.MultiPoint(nil)
		case 2:
			return orb.LineString(nil)
		case 3:
			return orb.MultiLineString(nil)
		case 4:
			return orb.Polygon(nil)
		case 5:
			return orb.MultiPolygon(nil)
		case 6:
			return orb.Collection(nil)
		default:
			return orb.Ring(nil)
		}
	}
	return geometry(s, o, 0)
}

func geometry(s *core.Source, o Opts, depth int) orb.Geometry {
	w := []int{3, 2, 3, 2, 3, 2, 2, 1, 1}
	if depth >= o.MaxDepth {
		w[KCollection] = 0
	}
	if !o.RingBound {
		w[KRing], w[KBound] = 0, 0
	}
	s.Begin("geom")
	defer s.End()
	switch s.Pick(w, "kind") {
	case KPoint:
		return point(s, o)
	case KMultiPoint:
		return orb.MultiPoint(points(s, o, 0))
	case KLineString:
		return orb.LineString(points(s, o, 0))
	case KMultiLineString:
		m := orb.MultiLineString{}
		s.Repeat(0, 2, o.MaxParts, "line", func(int) { m = append(m, orb.LineString(points(s, o, 0))) })
		return m
	case KPolygon:
		return polygon(s, o)
	case KMultiPolygon:
		m := orb.MultiPolygon{}
		s.Repeat(0, 2, o.MaxParts, "poly", func(int) { m = append(m, polygon(s, o)) })
		return m
	case KCollection:
		c := orb.Collection{}
		s.Repeat(0, 2, o.MaxParts, "member", func(int) { c = append(c, geometry(s, o, depth+1)) })
		return c
	case KRing:
		return ring(s, o)
	default:
		a, b := point(s, o), point(s, o)
		return orb.Bound{Min: a, Max: b}
	}
}

// Big draws a geometry whose element counts cross the decoders' preallocation
// caps (10 000 points, 100 members): beyond them the decoders grow their
// slices, which is a different code path from the one small values take.
func Big(s *core.Source) orb.Geometry {
	pts := func(n int) []orb.Point {
		ps := make([]orb.Point, n)
		for i := range ps {
			ps[i] = orb.Point{float64(i), -float64(i) / 8}
		}
		// a few drawn bit patterns so that position slips are visible
		for k := 0; k < 4; k++ {
			ps[s.Intn(n, "bigpos")] = orb.Point{Coord(s, AnyBits), Coord(s, AnyBits)}
		}
		return ps
	}
	n := []int{9999, 10000, 10001, 10037, 20011}[s.Intn(5, "bign")]
	m := []int{99, 100, 101, 137, 260}[s.Intn(5, "bigm")]
	switch s.Intn(10, "bigkind") {
	case 9: // collections nested far deeper than anything drawn member by member
		var g orb.Geometry = orb.Point{1, 2}
		for d := []int{99, 100, 101, 150, 400}[s.Intn(5, "bigdepth")]; d > 0; d-- {
			g = orb.Collection{g}
		}
		return g
	case 7: // a long line FOLLOWED by other members: whatever the encoder keeps after a big write shows up in them
		return orb.MultiLineString{orb.LineString(pts(n)), orb.LineString(pts(2)), orb.LineString(pts(3))}
	case 8:
		return orb.Collection{orb.LineString(pts([]int{4095, 4096, 4097, n}[s.Intn(4, "bign2")])), orb.Point{1, 2}, orb.LineString(pts(2)), orb.Polygon{orb.Ring(pts(4))}}
	case 0:
		return orb.LineString(pts(n))
	case 1:
		return orb.MultiPoint(pts(n))
	case 2:
		return orb.Polygon{orb.Ring(pts(3)), orb.Ring(pts(n))}
	case 3:
		ml := make(orb.MultiLineString, m)
		for i := range ml {
			ml[i] = orb.LineString(pts(2 + i%3))
		}
		return ml
	case 4:
		p := make(orb.Polygon, m)
		for i := range p {
			p[i] = orb.Ring(pts(4))
		}
		return p
	case 5:
		mp := make(orb.MultiPolygon, m)
		for i := range mp {
			mp[i] = orb.Polygon{orb.Ring(pts(4))}
		}
		return mp
	default:
		c := make(orb.Collection, m)
		for i := range c {
			switch i % 3 {
			case 0:
				c[i] = orb.Point{float64(i), 1}
			case 1:
				c[i] = orb.LineString(pts(2))
			default:
				c[i] = orb.MultiPoint(pts(2))
			}
		}
		return c
	}
}

// Describe renders a geometry compactly with exact coordinate bits where needed.
func Describe(g orb.Geometry) string {
	var sb strings.Builder
	describe(&sb, g)
	out := sb.String()
	if len(out) > 600 {
		out = out[:600] + "…"
	}
	return out
}

func fl(f float64) string {
	if math.IsNaN(f) || math.IsInf(f, 0) || (f == 0 && math.Signbit(f)) || (f != 0 && math.Abs(f) < 1e-300) {
		return fmt.Sprintf("bits:%016x", math.Float64bits(f))
	}
	return fmt.Sprintf("%g", f)
}

func pts(sb *strings.Builder, ps []orb.Point) {
	sb.WriteString("(")
	for i, p := range ps {
		if i > 0 {
			sb.WriteString(",")
		}
		sb.WriteString(fl(p[0]) + " " + fl(p[1]))
	}
	sb.WriteString(")")
}

func describe(sb *strings.Builder, g orb.Geometry) {
	switch x := g.(type) {
	case nil:
		sb.WriteString("nil")
	case orb.Point:
		sb.WriteString("Point")
		pts(sb, []orb.Point{x})
	case orb.MultiPoint:
		if x == nil {
			sb.WriteString("MultiPoint(nil)")
			return
		}
		sb.WriteString("MultiPoint")
		pts(sb, x)
	case orb.LineString:
		if x == nil {
			sb.WriteString("LineString(nil)")
			return
		}
		sb.WriteString("LineString")
		pts(sb, x)
	case orb.Ring:
		if x == nil {
			sb.WriteString("Ring(nil)")
			return
		}
		sb.WriteString("Ring")
		pts(sb, x)
	case orb.MultiLineString:
		if x == nil {
			sb.WriteString("MultiLineString(nil)")
			return
		}
		sb.WriteString("MultiLineString[")
		for i, l := range x {
			if i > 0 {
				sb.WriteString(",")
			}
			pts(sb, l)
		}
		sb.WriteString("]")
	case orb.Polygon:
		if x == nil {
			sb.WriteString("Polygon(nil)")
			return
		}
		sb.WriteString("Polygon[")
		for i, l := range x {
			if i > 0 {
				sb.WriteString(",")
			}
			pts(sb, l)
		}
		sb.WriteString("]")
	case orb.MultiPolygon:
		if x == nil {
			sb.WriteString("MultiPolygon(nil)")
			return
		}
		sb.WriteString("MultiPolygon[")
		for i, p := range x {
			if i > 0 {
				sb.WriteString(",")
			}
			describe(sb, p)
		}
		sb.WriteString("]")
	case orb.Collection:
		if x == nil {
			sb.WriteString("Collection(nil)")
			return
		}
		sb.WriteString("Collection[")
		for i, m := range x {
			if i > 0 {
				sb.WriteString(",")
			}
			describe(sb, m)
		}
		sb.WriteString("]")
	case orb.Bound:
		sb.WriteString("Bound")
		pts(sb, []orb.Point{x.Min, x.Max})
	default:
		fmt.Fprintf(sb, "%T", g)
	}
}
