package gen

import (
	"fmt"
	"strings"

	"github.com/paulmach/orb"
	"github.com/paulmach/orb/encoding/mvt"
	"github.com/paulmach/orb/geojson"

	"verif/sim/core"
)

// Tile-space generators for C03/C05: integer coordinates |v| < 2^28,
// non-empty parts, closed rings of non-zero area, outer rings CCW, holes CW.

func tileCenter(s *core.Source) (int, int) {
	switch s.Pick([]int{5, 2, 1}, "center") {
	case 0:
		return s.Range(0, 4096, "cx"), s.Range(0, 4096, "cy")
	case 1:
		return s.Range(0, 1<<13, "cx") - 1<<12, s.Range(0, 1<<13, "cy") - 1<<12
	default:
		// far from the origin, both signs: exercises 32-bit zigzag deltas up to 2^29
		m := 1<<28 - 5000
		return s.Range(0, 2*m, "cx") - m, s.Range(0, 2*m, "cy") - m
	}
}

const tileLimit = 1<<28 - 1 // |v| < 2^28

func clampTile(v int) int {
	if v > tileLimit {
		return tileLimit
	}
	if v < -tileLimit {
		return -tileLimit
	}
	return v
}

// drawRadius: mostly tile-sized shapes, sometimes shapes spanning up to 2^27
// units (deltas and ring areas that do not fit 16/32-bit arithmetic).
func drawRadius(s *core.Source) int {
	return []int{4, 64, 2048, 1 << 16, 1 << 22, 1 << 27}[s.Pick([]int{6, 6, 3, 1, 1, 1}, "radius")]
}

func tilePointR(s *core.Source, cx, cy, r int) orb.Point {
	return orb.Point{float64(clampTile(cx + s.Range(0, 2*r, "dx") - r)), float64(clampTile(cy + s.Range(0, 2*r, "dy") - r))}
}

func tilePoint(s *core.Source, cx, cy int) orb.Point { return tilePointR(s, cx, cy, drawRadius(s)) }

func tilePoints(s *core.Source, min, max int) []orb.Point {
	cx, cy := tileCenter(s)
	var ps []orb.Point
	s.Repeat(min, 3, max, "tp", func(int) {
		if len(ps) > 0 && s.Chance(1, 8, "dupvertex") {
			ps = append(ps, ps[len(ps)-1]) // the same vertex twice in a row (a zero delta)
			return
		}
		ps = append(ps, tilePoint(s, cx, cy))
	})
	return ps
}

// area2 is twice the signed shoelace area, exact in int64 for ring extents < 2^30.
func area2(r []orb.Point) int64 {
	var a int64
	ox, oy := int64(r[0][0]), int64(r[0][1])
	for i := 0; i < len(r); i++ {
		j := (i + 1) % len(r)
		a += (int64(r[i][0])-ox)*(int64(r[j][1])-oy) - (int64(r[j][0])-ox)*(int64(r[i][1])-oy)
	}
	return a
}

// TileRing draws a closed ring of non-zero area with the requested winding
// around (cx,cy). No vertex other than the closing one equals the first vertex
// (the format drops the closing vertex and the decoder re-adds it only when
// the ring is not already closed, so [a b c a a] and [a b c a] are the same ring).
func TileRing(s *core.Source, cx, cy int, ccw bool) orb.Ring {
	r := drawRadius(s)
	for attempt := 0; ; attempt++ {
		var ps []orb.Point
		n := s.Range(3, 7, "nverts")
		for i := 0; i < n; i++ {
			p := tilePointR(s, cx, cy, r)
			if i > 0 && p == ps[0] {
				p[0]++ // keep the first vertex unique
			}
			ps = append(ps, p)
		}
		a := area2(ps)
		// the winding must not hinge on float rounding in a float64 shoelace
		// over coordinates of this magnitude: require |2A| >= extent^2 / 2^20
		if lim := int64(r) * int64(r) >> 20; a != 0 && a < lim && a > -lim && attempt <= 20 {
			continue
		}
		if a == 0 {
			if attempt > 20 {
				ps = []orb.Point{{float64(cx), float64(cy)}, {float64(cx + 2), float64(cy)}, {float64(cx), float64(cy + 2)}}
				a = area2(ps)
			} else {
				continue
			}
		}
		if (a > 0) != ccw {
			for i, j := 1, len(ps)-1; i < j; i, j = i+1, j-1 { // reverse, keeping the first vertex first
				ps[i], ps[j] = ps[j], ps[i]
			}
		}
		return append(orb.Ring(ps), ps[0])
	}
}

func tilePolygon(s *core.Source) orb.Polygon {
	cx, cy := tileCenter(s)
	p := orb.Polygon{TileRing(s, cx, cy, true)}
	s.Repeat(0, 1, 3, "hole", func(int) { p = append(p, TileRing(s, cx, cy, false)) })
	switch s.Pick([]int{4, 1, 1}, "ringform") {
	case 1:
		// open rings: the closing vertex left out (the format drops it anyway; it must come back)
		for i := range p {
			p[i] = p[i][: len(p[i])-1 : len(p[i])-1]
		}
	case 2:
		// open rings carved out of one coordinate array, each followed directly by the next
		// (how a caller that parsed a flat coordinate list holds them): cap > len
		var flat []orb.Point
		for _, r := range p {
			flat = append(flat, r[:len(r)-1]...)
		}
		flat = append(flat, orb.Point{-99, -99}) // the last ring has room behind it as well
		off := 0
		for i, r := range p {
			n := len(r) - 1
			p[i] = orb.Ring(flat[off : off+n])
			off += n
		}
	}
	return p
}

// Tile geometry kinds.
const (
	TPoint = iota
	TLineString
	TPolygon
	TMultiPoint
	TMultiLineString
	TMultiPolygon
	TRing
	TBound
	TNil
	TCollection
	NumTileKinds
)

// TileGeometry draws a tile-space geometry of the given kind.
func TileGeometry(s *core.Source, kind int) orb.Geometry {
	switch kind {
	case TPoint:
		cx, cy := tileCenter(s)
		return tilePoint(s, cx, cy)
	case TMultiPoint:
		return orb.MultiPoint(tilePoints(s, 1, 6))
	case TLineString:
		if s.Chance(1, 12, "onevertex") {
			return orb.LineString(tilePoints(s, 1, 1)) // degenerate, but it has a MoveTo and comes back as written
		}
		return orb.LineString(tilePoints(s, 2, 8))
	case TMultiLineString:
		var m orb.MultiLineString
		s.Repeat(1, 1, 4, "line", func(int) { m = append(m, orb.LineString(tilePoints(s, 2, 6))) })
		return m
	case TPolygon:
		return tilePolygon(s)
	case TMultiPolygon:
		var m orb.MultiPolygon
		s.Repeat(1, 1, 3, "poly", func(int) { m = append(m, tilePolygon(s)) })
		return m
	case TRing:
		cx, cy := tileCenter(s)
		return TileRing(s, cx, cy, true)
	case TBound:
		cx, cy := tileCenter(s)
		a := tilePoint(s, cx, cy)
		w, h := s.Range(1, 300, "w"), s.Range(1, 300, "h")
		return orb.Bound{Min: a, Max: orb.Point{a[0] + float64(w), a[1] + float64(h)}}
	case TNil:
		return nil
	default:
		var c orb.Collection
		s.Repeat(0, 2, 4, "member", func(int) { c = append(c, TileGeometry(s, s.Intn(TRing+1, "mkind"))) })
		return c
	}
}

// (Go strings are byte strings: the pools include values that are not valid UTF-8 - Latin-1, a cut rune, raw bytes)
var keyPool = []string{"name", "kind", "a", "b", "class", "height", "ref", "", "Name", "A", "name ", "ab", "stra\xdfe", "\xff"}
var strPool = []string{"", "x", "1", "true", "road", "é", "a\x00b", "long-value-long-value", "Stra\xdfe", "\xe2\x82", "\xff\xfe\x80", "\ufffd"}

// PropValue draws one property value over {string, bool, every Go integer and float kind, nil, slices/maps}.
func PropValue(s *core.Source) interface{} {
	n := s.Pick([]int{3, 2, 2, 1, 1, 1, 1, 1, 1, 1, 1, 1, 2, 2, 1, 1, 1}, "vkind")
	small := func() int64 { return int64(s.Range(0, 6, "small")) - 3 }
	switch n {
	case 0:
		return strPool[s.Intn(len(strPool), "str")]
	case 1:
		return s.Bool("bool")
	case 2:
		return int(small())
	case 3:
		return int8(small())
	case 4:
		return int16(small() * 1000)
	case 5:
		return int32(small() * 100000)
	case 6:
		return int64(s.Bits("i64"))
	case 7:
		return uint(small() + 3)
	case 8:
		return uint8(small() + 3)
	case 9:
		return uint16(small() + 3)
	case 10:
		return uint32(small() + 3)
	case 11:
		return s.Bits("u64")
	case 12:
		if s.Bool("inexact32") {
			return []float32{0.1, 1.0 / 3, 12.3, 1e-10, 3.4e38, 16777217}[s.Intn(6, "f32")]
		}
		return float32(small()) / 4
	case 13:
		switch s.Intn(3, "fkind") {
		case 0:
			return float64(small())
		case 1:
			return float64(small()) / 8
		default:
			return Coord(s, Finite)
		}
	case 14:
		return nil
	case 15:
		return []interface{}{float64(small()), strPool[s.Intn(len(strPool), "str")]}
	default:
		return map[string]interface{}{"k": float64(small()), "z": []interface{}{true}}
	}
}

var longKeys = []string{strings.Repeat("k", 127), strings.Repeat("k", 128), strings.Repeat("key-", 70), strings.Repeat("x", 17000)}

// Props draws a property map.
func Props(s *core.Source) geojson.Properties {
	p := geojson.Properties{}
	if s.Chance(1, 12, "samebits") {
		// the same bit pattern as values of different integer kinds (and as a float)
		bits := []uint64{1<<64 - 1, 1 << 63, 1, 0, 1<<53 + 1}[s.Intn(5, "bits")]
		p["u"] = bits
		p["i"] = int64(bits)
		if s.Bool("more") {
			p["n"] = int(int64(bits))
			p["f"] = float64(bits)
			p["u32"] = uint32(bits)
			p["i8"] = int8(bits)
		}
	}
	s.Repeat(0, 2, 6, "prop", func(int) {
		k := keyPool[s.Intn(len(keyPool), "key")]
		if s.Chance(1, 40, "longkey") {
			// keys and values whose length needs a 2- or 3-byte varint prefix
			k = longKeys[s.Intn(len(longKeys), "lk")]
		}
		v := PropValue(s)
		if s.Chance(1, 60, "longval") {
			v = strings.Repeat("v", []int{127, 128, 300, 20000}[s.Intn(4, "lv")])
		}
		p[k] = v
	})
	return p
}

// FeatureID draws an id in {absent, non-negative integer} over several Go types.
func FeatureID(s *core.Source) interface{} {
	switch s.Pick([]int{3, 2, 1, 1, 1, 1}, "idkind") {
	case 0:
		return nil
	case 1:
		if s.Chance(1, 4, "idzero") {
			return 0 // a real id, not "absent"
		}
		return s.Range(0, 100, "id")
	case 2:
		return int64(s.Bits("id64") >> 1)
	case 3:
		return uint32(s.Bits("id32"))
	case 4:
		if s.Bool("iduint") {
			return uint(s.Bits("idu64") | 1<<63) // an unsigned id above the int64 range
		}
		return s.Bits("idu64")
	default:
		return float64(s.Range(0, 1<<20, "idf"))
	}
}

// LayerOpts controls which geometry kinds appear.
type LayerOpts struct {
	Collections bool // include geometry collections (marshal flattens them: known finding of C03)
	NilGeoms    bool
	Repetitive  bool // occasionally repeat a feature a thousand times (highly compressible tiles)
}

// Layers draws a layer list.
func Layers(s *core.Source, o LayerOpts) mvt.Layers {
	var ls mvt.Layers
	var last *geojson.Feature // the feature drawn before this one, in this layer or an earlier one
	anyRepetitive := false
	s.Repeat(0, 3, 3, "layer", func(i int) {
		l := &mvt.Layer{
			Name:    []string{"roads", "water", "", "poi"}[s.Intn(4, "lname")],
			Version: uint32(1 + s.Intn(2, "version")),
			Extent:  uint32(256) << uint(s.Intn(6, "extent")),
		}
		if s.Chance(1, 8, "oddheader") {
			// what a zero-valued or hand-filled Layer holds: the format's defaults (version 1, extent 4096), zero, the extremes
			l.Version = []uint32{0, 1, 2, 3, 1<<32 - 1}[s.Intn(5, "oddversion")]
			l.Extent = []uint32{0, 1, 4096, 4095, 1 << 31, 1<<32 - 1}[s.Intn(6, "oddextent")]
			l.Name = []string{"", "a", strings.Repeat("n", 128), strings.Repeat("layer-", 50), "stra\xdfe", "\x00", "roads"}[s.Intn(7, "oddname")]
		}
		s.Repeat(0, 4, 8, "feature", func(int) {
			w := []int{3, 3, 3, 2, 2, 2, 1, 1, 0, 0}
			if o.NilGeoms {
				w[TNil] = 1
			}
			if o.Collections {
				w[TCollection] = 1
			}
			f := geojson.NewFeature(TileGeometry(s, s.Pick(w, "gkind")))
			f.ID = FeatureID(s)
			f.Properties = Props(s)
			if last != nil {
				// coincidences uniform generation rarely makes: the same property map object,
				// the same geometry value, the same id as the previous feature - which may be
				// the last feature of the layer before - or the very same feature object again
				switch s.Pick([]int{12, 1, 1, 1, 1}, "same") {
				case 1:
					f.Properties = last.Properties
				case 2:
					f.Geometry = last.Geometry
				case 3:
					f.ID = last.ID
				case 4:
					f = last
				}
			}
			last = f
			l.Features = append(l.Features, f)
		})
		if o.Repetitive && len(l.Features) > 0 && s.Chance(1, 60, "manykeys") {
			// key and value tables beyond 127 / 255 entries: tag indices need 2-byte varints
			nk := []int{130, 300}[s.Intn(2, "nk")]
			for i := 0; i < nk; i++ {
				f := l.Features[i%len(l.Features)]
				if f.Properties == nil {
					f.Properties = geojson.Properties{}
				}
				f.Properties[fmt.Sprintf("k%03d", i)] = float64(i) + 0.5
			}
		}
		if o.Repetitive && len(l.Features) > 0 && !anyRepetitive && s.Chance(1, 300, "fat") {
			// (not once a layer holds a feature a thousand times over: features and their property maps are
			// shared across layers, and 1200 copies of a 17000-property feature take minutes to marshal)
			// a tile well over 64 KiB: several long distinct values, or tens of thousands of distinct values
			f := l.Features[0]
			if f.Properties == nil {
				f.Properties = geojson.Properties{}
			}
			if s.Bool("manyvalues") {
				for i := 0; i < 17000; i++ {
					f.Properties[fmt.Sprintf("v%05d", i)] = float64(i) + 0.25
				}
			} else {
				for i := 0; i < 6; i++ {
					f.Properties[fmt.Sprintf("long%d", i)] = strings.Repeat(string(rune('a'+i)), 20000)
				}
			}
		}
		fat := false
		for _, f := range l.Features {
			if len(f.Properties) > 1000 {
				fat = true
			}
		}
		if o.Repetitive && !fat && len(l.Features) > 0 && s.Chance(1, 120, "repetitive") {
			// real tiles are repetitive: the same feature many times over (compresses far better than 40:1)
			n := []int{100, 1200}[s.Intn(2, "reps")]
			anyRepetitive = true
			f := l.Features[len(l.Features)-1]
			for i := 0; i < n; i++ {
				l.Features = append(l.Features, f)
			}
		}
		ls = append(ls, l)
	})
	if len(ls) > 0 && s.Chance(1, 25, "samelayer") {
		ls = append(ls, ls[s.Intn(len(ls), "which")]) // the same layer object listed twice
	}
	return ls
}

// DescribeLayers renders layers for the event log.
func DescribeLayers(ls mvt.Layers) string {
	out := ""
	for _, l := range ls {
		out += fmt.Sprintf("layer %q v%d extent %d:", l.Name, l.Version, l.Extent)
		for _, f := range l.Features {
			out += fmt.Sprintf(" {id=%v %s props=%d}", f.ID, Describe(f.Geometry), len(f.Properties))
		}
		out += "; "
	}
	if len(out) > 900 {
		out = out[:900] + "…"
	}
	return out
}
