// Package c11: quadtree ≡ list of its contents, over operation histories.
package c11

import (
	"fmt"
	"math"
	"time"

	"github.com/paulmach/orb"
	"github.com/paulmach/orb/quadtree"

	"verif/sim/core"
	"verif/sim/props"
	"verif/sim/qt"
)

func init() {
	props.Register(&props.Property{
		ID:    "C11",
		Level: "exploration",
		Rule: "a case is one seeded operation history on an initially empty quadtree (engine 'history': 1-400 operations, swarm-drawn " +
			"operation mix, alphabet size 2-64, dyadic coordinates biased to midlines and the bound; engine 'tiny': mutation histories of " +
			"length <= 6 over a 5-point alphabet with a full query sweep after every step; engine 'floaty': arbitrary float64 bounds and points, including points placed exactly on " +
			"cell midlines computed both as (lo+hi)/2 and lo+(hi-lo)/2, pointers stored as non-comparable value types, checked only with oracles that need no arithmetic; also bounds that are infinite on an axis and bounds of 1e-160 around zero). " +
			"In 'history' a fifth of the runs alternate between two trees, results are either handed back as the next buffer (chained) or kept and compared again after every later call, a quarter of the runs share one array out as k-slot result windows, one predicate in ten searches the same tree itself. Distinct = distinct event-log digest; " +
			"non-trivial = at least 3 operations completed.",
		StateDef: "engine tiny: distinct mutation-history prefixes of length <= 6 over the 12-symbol alphabet (out of 3257437); " +
			"engine history: distinct (multiset of live points, last operation kind) signatures",
		Engines: []props.Engine{
			{Name: "history", Variant: "plain", Run: RunHistory, QuickRuns: 150000, Share: 0.5, MinThorough: 200000, RunTimeout: 60 * time.Second},
			{Name: "floaty", Variant: "plain", Run: RunFloaty, QuickRuns: 60000, Share: 0.15, MinThorough: 300000, RunTimeout: 60 * time.Second},
			{Name: "tiny", Variant: "plain", Run: RunTiny, QuickRuns: 400000, Share: 0.35, MinThorough: 400000, RunTimeout: 60 * time.Second},
		},
		Real:        []string{"quadtree", "planar", "orb (Bound, Point)"},
		Stub:        []string{},
		Assumptions: []string{"distance ties may be broken either way", "KNearest is only called with k >= 1", "query boxes have min <= max", "Add(nil) is not part of the property"},
		Spaces:      []props.Space{{}, {Name: "mutation-history prefixes of length 1-6 over the 12-symbol tiny alphabet", Total: 3257436}},
		NonTrivial:  func(o *core.Outcome) bool { return o.Ops >= 3 },
	})
}

type run struct {
	t     *core.T
	w     *qt.World
	tr    *quadtree.Quadtree
	m     qt.Model
	all   []*qt.Pt // every pointer ever created (for re-adding removed ones, removing absent ones)
	nextI int
	nq    int
	// arena: one array whose adjacent windows serve as k-nearest result buffers (nil: fresh buffers)
	arena    []orb.Pointer
	arenaOff int
	prev     []orb.Pointer // the caller's previous result; chained queries hand it back as their buffer
	kept     []keptResult  // results the caller holds on to and never hands back
}

// keptResult is a result slice the caller keeps while it goes on using the
// tree: what a search returned belongs to the caller unless it passes the
// slice in again as a buffer.
type keptResult struct {
	desc string
	got  qt.Result // the slice as returned
	was  qt.Result // its contents at that moment
}

func (r *run) keptIntact() bool {
	for _, k := range r.kept {
		if !k.got.SameAs(k.was) {
			r.fail("result-stable", "later-call", "the slice returned by %s changed during later calls on the tree: now %v, was %v", k.desc, k.got, k.was)
			return false
		}
	}
	return true
}

func (r *run) newPt(p orb.Point) *qt.Pt {
	x := &qt.Pt{ID: r.nextI, P: p}
	r.nextI++
	r.all = append(r.all, x)
	return x
}

func (r *run) live(x *qt.Pt) bool {
	for _, y := range r.m.Live {
		if y == x {
			return true
		}
	}
	return false
}

// fail records a violation; returns true so callers can `return`.
func (r *run) fail(oracle, api, format string, a ...interface{}) {
	r.t.Violate(oracle, api, "", format, a...)
}

func (r *run) contents(api string) bool {
	var msg string
	if r.t.Guard("InBound(all)", func() { msg = r.m.CheckContents(r.tr) }) {
		return false
	}
	if msg != "" {
		r.fail("contents", api, "after %s: %s", api, msg)
		return false
	}
	return true
}

func (r *run) add(x *qt.Pt, inside bool) bool {
	var err error
	r.t.Logf("Add %v inside=%v", x, inside)
	if r.t.Guard("Add", func() { err = r.tr.Add(x) }) {
		return false
	}
	if inside {
		if err != nil {
			r.fail("add", "Add", "Add(%v) inside the bound %v failed: %v", x, r.w.Bound, err)
			return false
		}
		r.m.Add(x)
	} else {
		if err != quadtree.ErrPointOutsideOfBounds {
			r.fail("add-outside", "Add", "Add(%v) outside the bound %v returned %v, want ErrPointOutsideOfBounds", x, r.w.Bound, err)
			if err == nil {
				return false
			}
		}
	}
	r.t.Op()
	return r.contents("Add")
}

// remove calls Remove(probe, eq) where accept describes eq for the model.
func (r *run) remove(desc string, probe *qt.Pt, eq quadtree.FilterFunc, accept func(*qt.Pt) bool) bool {
	want := false
	for _, x := range r.m.Live {
		if accept(x) {
			want = true
			break
		}
	}
	r.t.Logf("Remove %s probe=%v expect=%v", desc, probe, want)
	var got bool
	if r.t.Guard("Remove", func() { got = r.tr.Remove(probe, eq) }) {
		return false
	}
	if got != want {
		r.fail("remove-report", "Remove", "Remove(%s) returned %v, a match exists: %v (live %v)", desc, got, want, r.m.Live)
		return false
	}
	r.t.Op()
	// Which matching pointer went is the tree's choice: diff the contents.
	var after []orb.Pointer
	if r.t.Guard("InBound(all)", func() { after = qt.Contents(r.tr) }) {
		return false
	}
	left := map[*qt.Pt]int{}
	for _, p := range after {
		if x, ok := p.(*qt.Pt); ok {
			left[x]++
		} else {
			r.fail("contents", "Remove", "after Remove the tree holds a foreign value %v", p)
			return false
		}
	}
	var gone []*qt.Pt
	for _, x := range r.m.Live { // one entry per stored occurrence: consume what is left
		if left[x] == 0 {
			gone = append(gone, x)
		} else {
			left[x]--
		}
	}
	if !want {
		if len(gone) != 0 || len(after) != len(r.m.Live) {
			r.fail("remove-one", "Remove", "Remove(%s) reported no match but the contents changed: gone %v, %d left of %d", desc, gone, len(after), len(r.m.Live))
			return false
		}
		return true
	}
	if len(gone) != 1 || len(after) != len(r.m.Live)-1 {
		r.fail("remove-one", "Remove", "Remove(%s) must remove exactly one pointer: gone %v, %d left of %d", desc, gone, len(after), len(r.m.Live))
		return false
	}
	if !accept(gone[0]) {
		r.fail("remove-one", "Remove", "Remove(%s) removed %v which does not match", desc, gone[0])
		return false
	}
	r.m.RemoveIdentity(gone[0])
	return r.contents("Remove")
}

func (r *run) query(q *qt.Query) bool {
	var res qt.Result
	api := qt.QueryNames[q.Kind]
	if r.arena != nil && (q.Kind == qt.QKNearest || q.Kind == qt.QKNearestMatching) && q.BufCap >= 0 && q.K <= 64 && r.arenaOff+q.K <= len(r.arena) {
		// the caller shares one result array out among its k-nearest queries
		q.Win = r.arena[r.arenaOff : r.arenaOff+q.K]
		r.arenaOff += q.K
	}
	if r.t.Guard(api, func() { res = q.ExecBuf(r.tr, r.prev) }) {
		return false
	}
	if !res.IsOne {
		r.nq++
		if r.nq%3 == 0 && q.Win == nil { // (a window of the shared array is never handed back: its capacity covers other windows)
			r.prev = res.Many
		} else {
			// never handed back: must stay as returned (the four most recent are watched)
			if q.BufCap == qt.Chain {
				r.prev = nil // the result may live in the buffer that was handed in: it is not handed in again
			}
			k := keptResult{desc: q.String(), got: res, was: res.Clone()}
			if len(r.kept) < 4 {
				r.kept = append(r.kept, k)
			} else {
				r.kept[r.nq%4] = k
			}
		}
	}
	if !r.keptIntact() {
		return false
	}
	// hashed always, rendered only when the run is being kept (replay, samples)
	h := uint64(q.Kind)<<8 | uint64(q.K)
	if res.IsOne {
		h = core.Mix(h, ptID(res.One))
	} else {
		for _, p := range res.Many {
			h = core.Mix(h, ptID(p))
		}
	}
	r.t.Hash(0xC11, h)
	if r.t.Keep {
		r.t.Note("%v -> %v", q, res)
	}
	if oracle, msg := r.m.Check(q, res); oracle != "" {
		r.fail(oracle, api, "%v on live=%v: %s", q, r.m.Live, msg)
		return false
	}
	r.t.Op()
	return true
}

func ptID(p orb.Pointer) uint64 {
	if x, ok := p.(*qt.Pt); ok && x != nil {
		return uint64(x.ID) + 2
	}
	if p == nil {
		return 1
	}
	return 0
}

// RunHistory: one long random history.
func RunHistory(t *core.T) {
	s := t.Src
	alphabet := []int{2, 3, 5, 9, 16, 32, 64}[s.Pick([]int{2, 2, 2, 2, 2, 1, 1}, "alphabet")]
	r := &run{t: t, w: qt.NewWorld(s, alphabet)}
	r.tr = quadtree.New(r.w.Bound)
	t.Logf("bound %v..%v alphabet %d", r.w.Bound.Min, r.w.Bound.Max, alphabet)
	// swarm: operation mix
	w := make([]int, 9)
	for i := range w {
		w[i] = s.Pick([]int{1, 1, 1, 1}, "w") // 0..3
	}
	w[0] += 2 // adds keep the tree populated
	if s.Chance(1, 80, "preload") {
		// scale: hundreds to thousands of stored pointers, long chains of duplicates
		n := []int{300, 1000, 3000, 6000}[s.Intn(4, "npre")]
		dup := s.Intn(len(r.w.Pool), "duppt")
		for i := 0; i < n; i++ {
			p := r.w.Pool[dup]
			if i%3 != 0 {
				p = orb.Point{r.w.Bound.Min[0] + float64(s.Intn(int(2*r.w.W*16)+1, "px"))/16, r.w.Bound.Min[1] + float64(s.Intn(int(2*r.w.H*16)+1, "py"))/16}
			}
			x := r.newPt(p)
			if t.Guard("Add", func() { r.tr.Add(x) }) {
				return
			}
			r.m.Add(x)
		}
		if s.Chance(1, 3, "drain") {
			// thousands of removals, in a drawn order, down to a handful of pointers
			keep := s.Intn(6, "keep")
			for len(r.m.Live) > keep && !t.Failed() {
				target := r.m.Live[s.Intn(len(r.m.Live), "drainvictim")]
				var got bool
				if t.Guard("Remove", func() { got = r.tr.Remove(target, func(p orb.Pointer) bool { return p == orb.Pointer(target) }) }) {
					return
				}
				if !got {
					r.fail("remove-report", "Remove", "while draining a tree of %d pointers: Remove(identity %v) returned false", len(r.m.Live), target)
					return
				}
				r.m.RemoveIdentity(target)
			}
			t.Probe("drained_tree")
		}
		t.Probe("preloaded_tree")
		t.Logf("preloaded %d pointers (every third at %v)", n, r.w.Pool[dup])
		if !r.contents("preload") {
			return
		}
	}
	maxOps := []int{6, 20, 60, 150, 400}[s.Pick([]int{2, 3, 3, 2, 1}, "len")]
	// sometimes a second tree lives in the same process and the history alternates between
	// the two: each must behave as its own list, whatever the package keeps between calls
	if s.Chance(1, 4, "arena") {
		r.arena = make([]orb.Pointer, 600)
	}
	trees := []*run{r}
	if s.Chance(1, 5, "twotrees") {
		other := &run{t: t, w: r.w, nextI: 100000}
		other.tr = quadtree.New(r.w.Bound)
		trees = append(trees, other)
		t.Probe("two_trees_interleaved")
	}
	s.Repeat(1, maxOps, maxOps, "op", func(i int) {
		if t.Failed() {
			return
		}
		r := trees[0]
		if len(trees) > 1 {
			r = trees[s.Intn(len(trees), "tree")]
		}
		switch s.Pick(w, "kind") {
		case 0: // add a new pointer
			r.add(r.newPt(r.w.Pool[s.Intn(len(r.w.Pool), "pt")]), true)
		case 1: // add outside the bound
			r.add(r.newPt(r.w.Out[s.Intn(len(r.w.Out), "out")]), false)
		case 2: // re-add a pointer that was removed earlier
			if len(r.all) == 0 {
				return
			}
			x := r.all[s.Intn(len(r.all), "re")]
			if !r.w.Bound.Contains(x.P) {
				return
			}
			if r.live(x) && !s.Chance(1, 3, "same-pointer-again") {
				return // mostly re-add removed pointers; sometimes store the same pointer twice (a multiset)
			}
			r.add(x, true)
		case 3: // remove by identity (live, removed, or never added pointer)
			var target *qt.Pt
			if len(r.all) > 0 && !s.Chance(1, 6, "fresh") {
				target = r.all[s.Intn(len(r.all), "victim")]
			} else {
				target = &qt.Pt{ID: -2, P: r.w.QueryPoint(s)}
			}
			probe := target
			if s.Chance(1, 4, "probe-elsewhere") {
				// the search is guided by the probe's point, the match by eq only
				probe = &qt.Pt{ID: -3, P: r.w.QueryPoint(s)}
			}
			r.remove(fmt.Sprintf("identity %v", target), probe,
				func(p orb.Pointer) bool { return p == orb.Pointer(target) },
				func(x *qt.Pt) bool { return x == target })
		case 4: // remove by point (nil filter)
			probe := &qt.Pt{ID: -4, P: r.w.QueryPoint(s)}
			r.remove(fmt.Sprintf("point %v", probe.P), probe, nil, func(x *qt.Pt) bool { return x.P == probe.P })
		case 5: // remove by drawn filter
			f := qt.DrawFilter(s)
			probe := &qt.Pt{ID: -5, P: r.w.QueryPoint(s)}
			r.remove(f.String(), probe, f.Func(), func(x *qt.Pt) bool { return f.Accept(x.ID) })
		case 6:
			r.query(r.w.DrawQuery(s, s.Intn(2, "q")))
		case 7:
			r.query(r.w.DrawQuery(s, 2+s.Intn(2, "q")))
		case 8:
			r.query(r.w.DrawQuery(s, 4+s.Intn(2, "q")))
		}
	})
	for _, r := range trees {
		if t.Failed() {
			break
		}
		// final sweep
		for k := 0; k < qt.NumQueryKinds && !t.Failed(); k++ {
			s.Begin("final")
			r.query(r.w.DrawQuery(s, k))
			s.End()
		}
		if !t.Failed() {
			r.contents("final")
		}
	}
	sig := uint64(len(r.m.Live))
	for _, x := range r.m.Live {
		sig += core.SplitMix64(uint64(int64(x.P[0]*16))*1000003 + uint64(int64(x.P[1]*16))) // order-free
	}
	t.State64(sig)
}

// Tiny alphabet: bound [-1,1]^2; centre (on both midlines), a bound corner,
// a point on the vertical midline, and two points that share cells two levels
// down (so the tree must grow, and removal must pull values up).
var tinyPts = []orb.Point{{0, 0}, {1, 1}, {0, -0.5}, {0.25, 0.25}, {0.375, 0.125}}

// RunTiny: short mutation histories with a full query sweep after every step.
func RunTiny(t *core.T) {
	s := t.Src
	w := &qt.World{Bound: orb.Bound{Min: orb.Point{-1, -1}, Max: orb.Point{1, 1}}, W: 1, H: 1, Pool: tinyPts, Out: []orb.Point{{2, 0}}}
	r := &run{t: t, w: w, tr: quadtree.New(w.Bound)}
	hist := uint64(0xC11)
	n := 6
	for i := 0; i < n && !t.Failed(); i++ {
		s.Begin("step")
		sym := s.Intn(12, "sym")
		hist = core.Mix(hist, uint64(sym)+1)
		switch {
		case sym < 5:
			r.add(r.newPt(tinyPts[sym]), true)
		case sym < 10:
			probe := &qt.Pt{ID: -4, P: tinyPts[sym-5]}
			r.remove(fmt.Sprintf("point %v", probe.P), probe, nil, func(x *qt.Pt) bool { return x.P == probe.P })
		default:
			// remove the oldest (10) / newest (11) live pointer by identity; a
			// never-added pointer when the tree is empty
			target := &qt.Pt{ID: -2, P: tinyPts[0]}
			if len(r.m.Live) > 0 {
				target = r.m.Live[0]
				if sym == 11 {
					target = r.m.Live[len(r.m.Live)-1]
				}
			}
			r.remove(fmt.Sprintf("identity %v", target), target,
				func(p orb.Pointer) bool { return p == orb.Pointer(target) },
				func(x *qt.Pt) bool { return x == target })
		}
		s.End()
		if t.Failed() {
			break
		}
		t.StateIn(1, hist)
		r.sweep()
	}
}

var tinyBoxes = []orb.Bound{
	{Min: orb.Point{-1, -1}, Max: orb.Point{1, 1}},
	{Min: orb.Point{0, 0}, Max: orb.Point{1, 1}},
	{Min: orb.Point{-1, -1}, Max: orb.Point{0, 0}},
	{Min: orb.Point{0.25, 0.125}, Max: orb.Point{0.375, 0.25}},
	{Min: orb.Point{0, -0.5}, Max: orb.Point{0, 0}},
	{Min: orb.Point{0.5, -1}, Max: orb.Point{1, 0.5}},
}

var tinyQueries = []orb.Point{{0, 0}, {1, 1}, {0, -0.5}, {0.25, 0.25}, {0.375, 0.125}, {-1, -1}, {0.3125, 0.1875}, {-0.5, 0.5}, {3, 0}}

// sweep runs a fixed battery of queries (no draws: the history alone decides the run).
func (r *run) sweep() {
	odd := &qt.Filter{Mod: 2, Rem: 0}
	for _, p := range tinyQueries {
		if !r.query(&qt.Query{Kind: qt.QFind, P: p, MaxDist: -1, BufCap: -1}) {
			return
		}
		if !r.query(&qt.Query{Kind: qt.QMatching, P: p, F: odd, MaxDist: -1, BufCap: -1}) {
			return
		}
		for k := 1; k <= 3; k++ {
			if !r.query(&qt.Query{Kind: qt.QKNearest, P: p, K: k, MaxDist: -1, BufCap: k - 2}) {
				return
			}
		}
		if !r.query(&qt.Query{Kind: qt.QKNearest, P: p, K: 7, MaxDist: 0.5, BufCap: -1}) {
			return
		}
		if !r.query(&qt.Query{Kind: qt.QKNearestMatching, P: p, K: 2, F: odd, MaxDist: -1, BufCap: 4}) {
			return
		}
	}
	for _, b := range tinyBoxes {
		if !r.query(&qt.Query{Kind: qt.QInBound, Box: b, MaxDist: -1, BufCap: -1}) {
			return
		}
		if !r.query(&qt.Query{Kind: qt.QInBoundMatching, Box: b, F: odd, MaxDist: -1, BufCap: 2}) {
			return
		}
	}
}

// ---------------------------------------------------------------- floaty engine

// valPt is a pointer implementation that is a non-comparable VALUE type (it
// holds a slice): the tree must never compare stored values with ==.
type valPt struct {
	ID   int
	P    orb.Point
	Tags []string
}

func (v valPt) Point() orb.Point { return v.P }

// RunFloaty: arbitrary (non-dyadic) float64 bounds and coordinates. Distances
// are not exact here, so only oracles that need no arithmetic are used: what
// Add/Remove report, the contents as a multiset, bound searches (pure
// comparisons), and that nearest searches return stored, accepted, distinct
// pointers in the right number.
func RunFloaty(t *core.T) {
	s := t.Src
	fl := func(label string) float64 {
		switch s.Pick([]int{3, 2, 1}, label+"kind") {
		case 0:
			return float64(s.Range(-200, 200, label)) / 10 // decimal tenths: not dyadic
		case 1:
			return float64(s.Range(-1800, 1800, label)) / 7
		default:
			return math.Float64frombits(0x3ff0000000000000|s.Bits(label+"bits")>>12) * 3 // random mantissa
		}
	}
	x0, y0 := fl("x0"), fl("y0")
	b := orb.Bound{Min: orb.Point{x0, y0}, Max: orb.Point{x0 + 0.1 + math.Abs(fl("w")), y0 + 0.1 + math.Abs(fl("h"))}}
	var extra []float64 // coordinates added to both axes' alphabets
	switch s.Pick([]int{10, 1, 1}, "boundmode") {
	case 1:
		// a bound around zero so small that squared distances between distinct stored points underflow to 0
		b = orb.Bound{Min: orb.Point{-1e-160, -1e-160}, Max: orb.Point{1e-160, 1e-160}}
		extra = []float64{0, 5e-324, -5e-324, 1e-200, -1e-200, 1e-170, 1e-165, 3e-163}
		t.Probe("subnormal_scale_bound")
	case 2:
		// "everything": infinite on one axis or both, so the midlines are NaN
		b.Min[0], b.Max[0] = math.Inf(-1), math.Inf(1)
		if s.Bool("bothaxes") {
			b.Min[1], b.Max[1] = math.Inf(-1), math.Inf(1)
		}
		extra = []float64{0, 1, -1, 1e6, -1e6, 0.5, 123.25, -77.7, 1e100, -1e100} // (squared distances stay finite)
		t.Probe("infinite_bound")
	}
	tr := quadtree.New(b)
	t.Logf("bound %v..%v", b.Min, b.Max)
	// coordinate alphabet: edges, midlines of the first levels by both formulas, their float neighbours, and free values
	axis := func(lo, hi float64) []float64 {
		vals := []float64{lo, hi}
		type cell struct{ lo, hi float64 }
		cells := []cell{{lo, hi}}
		for d := 0; d < 3; d++ {
			var next []cell
			for _, c := range cells {
				m1, m2 := (c.lo+c.hi)/2, c.lo+(c.hi-c.lo)/2
				vals = append(vals, m1, m2, math.Nextafter(m1, c.hi), math.Nextafter(m1, c.lo))
				next = append(next, cell{c.lo, m1}, cell{m1, c.hi})
			}
			cells = next
		}
		return vals
	}
	finite := func(vals []float64, lo, hi float64) []float64 {
		var out []float64
		for _, v := range append(vals, extra...) {
			if !math.IsNaN(v) && !math.IsInf(v, 0) && v >= lo && v <= hi {
				out = append(out, v)
			}
		}
		return out
	}
	xs, ys := finite(axis(b.Min[0], b.Max[0]), b.Min[0], b.Max[0]), finite(axis(b.Min[1], b.Max[1]), b.Min[1], b.Max[1])
	coord := func(vals []float64, lo, hi float64, label string) float64 {
		if s.Chance(2, 3, label+"grid") || math.IsInf(lo, 0) || math.IsInf(hi, 0) || len(extra) > 0 && s.Bool(label+"extra") {
			return vals[s.Intn(len(vals), label)]
		}
		return lo + (hi-lo)*float64(s.Intn(1<<20, label))/(1<<20)
	}
	useVal := s.Chance(1, 5, "value-pointers")
	type ent struct {
		p  orb.Pointer
		pt orb.Point
		id int
	}
	var live []ent
	id := 0
	inBox := func(p orb.Point, q orb.Bound) bool {
		return p[0] >= q.Min[0] && p[0] <= q.Max[0] && p[1] >= q.Min[1] && p[1] <= q.Max[1]
	}
	idOf := func(p orb.Pointer) int {
		switch x := p.(type) {
		case *qt.Pt:
			return x.ID
		case valPt:
			return x.ID
		}
		return -1
	}
	checkContents := func(after string) bool {
		var got []orb.Pointer
		all := orb.Bound{Min: orb.Point{b.Min[0] - 1, b.Min[1] - 1}, Max: orb.Point{b.Max[0] + 1, b.Max[1] + 1}}
		if t.Guard("InBound(all)", func() { got = tr.InBound(nil, all) }) {
			return false
		}
		want := map[int]int{}
		for _, e := range live {
			want[e.id]++
		}
		for _, p := range got {
			want[idOf(p)]--
		}
		for _, e := range live {
			if want[e.id] != 0 {
				t.Violate("contents", after, "", "after %s on bound %v: the tree reports %d pointers, %d were stored; pointer #%d at %v is off by %d", after, b, len(got), len(live), e.id, e.pt, want[e.id])
				return false
			}
		}
		if len(got) != len(live) {
			t.Violate("contents", after, "", "after %s: the tree reports %d pointers, %d were stored", after, len(got), len(live))
			return false
		}
		return true
	}
	s.Repeat(1, 30, 80, "fop", func(int) {
		if t.Failed() {
			return
		}
		switch s.Pick([]int{5, 2, 3, 2, 1}, "fkind") {
		case 0: // add
			pt := orb.Point{coord(xs, b.Min[0], b.Max[0], "ax"), coord(ys, b.Min[1], b.Max[1], "ay")}
			var p orb.Pointer
			if useVal {
				p = valPt{ID: id, P: pt, Tags: []string{"t"}}
			} else {
				p = &qt.Pt{ID: id, P: pt}
			}
			var err error
			if t.Guard("Add", func() { err = tr.Add(p) }) {
				return
			}
			t.Logf("Add #%d %v -> %v", id, pt, err)
			if err != nil {
				t.Violate("add", "Add", "", "Add(%v) inside the closed bound %v failed: %v", pt, b, err)
				return
			}
			live = append(live, ent{p, pt, id})
			id++
			t.Op()
			checkContents("Add")
		case 1: // remove by point (default matcher) - the only removal that works for value pointers
			if len(live) == 0 {
				return
			}
			v := live[s.Intn(len(live), "victim")]
			var ok bool
			if t.Guard("Remove", func() { ok = tr.Remove(v.p, nil) }) {
				return
			}
			t.Logf("Remove by point %v -> %v", v.pt, ok)
			if !ok {
				t.Violate("remove-report", "Remove", "", "Remove by point %v returned false although #%d is stored there (bound %v)", v.pt, v.id, b)
				return
			}
			// which of the pointers at that point went is the tree's choice
			var got []orb.Pointer
			if t.Guard("InBound", func() { got = tr.InBound(nil, orb.Bound{Min: v.pt, Max: v.pt}) }) {
				return
			}
			left := map[int]bool{}
			for _, p := range got {
				left[idOf(p)] = true
			}
			removed := -1
			for i, e := range live {
				if e.pt == v.pt && !left[e.id] {
					removed = i
					break
				}
			}
			if removed < 0 {
				t.Violate("remove-one", "Remove", "", "Remove by point %v reported a match but every pointer stored there is still reported", v.pt)
				return
			}
			live = append(live[:removed], live[removed+1:]...)
			t.Op()
			checkContents("Remove")
		case 2: // bound search: pure comparisons
			a := orb.Point{coord(xs, b.Min[0], b.Max[0], "bx"), coord(ys, b.Min[1], b.Max[1], "by")}
			c := a
			if !s.Chance(1, 3, "pointbox") {
				c = orb.Point{coord(xs, b.Min[0], b.Max[0], "cx"), coord(ys, b.Min[1], b.Max[1], "cy")}
			}
			q := orb.Bound{Min: orb.Point{math.Min(a[0], c[0]), math.Min(a[1], c[1])}, Max: orb.Point{math.Max(a[0], c[0]), math.Max(a[1], c[1])}}
			var got []orb.Pointer
			if t.Guard("InBound", func() { got = tr.InBound(nil, q) }) {
				return
			}
			want := map[int]int{}
			n := 0
			for _, e := range live {
				if inBox(e.pt, q) {
					want[e.id]++
					n++
				}
			}
			t.Logf("InBound %v..%v -> %d pointers (want %d)", q.Min, q.Max, len(got), n)
			for _, p := range got {
				want[idOf(p)]--
			}
			for _, e := range live {
				if want[e.id] != 0 {
					t.Violate("inbound", "InBound", "", "InBound(%v..%v) on bound %v returned %d pointers, %d stored pointers lie in the closed box; pointer #%d at %v is off by %d", q.Min, q.Max, b, len(got), n, e.id, e.pt, want[e.id])
					return
				}
			}
			if len(got) != n {
				t.Violate("inbound", "InBound", "", "InBound(%v..%v) returned %d pointers, want %d", q.Min, q.Max, len(got), n)
				return
			}
			t.Op()
		case 3: // k-nearest: count, membership, distinctness (no distance claims)
			k := 1 + s.Intn(6, "k")
			p := orb.Point{coord(xs, b.Min[0], b.Max[0], "qx"), coord(ys, b.Min[1], b.Max[1], "qy")}
			var got []orb.Pointer
			if t.Guard("KNearest", func() { got = tr.KNearest(nil, p, k) }) {
				return
			}
			want := k
			if len(live) < k {
				want = len(live)
			}
			t.Logf("KNearest(%v,%d) -> %d pointers", p, k, len(got))
			seen := map[int]bool{}
			stored := map[int]bool{}
			for _, e := range live {
				stored[e.id] = true
			}
			for _, x := range got {
				if !stored[idOf(x)] || seen[idOf(x)] {
					t.Violate("knearest", "KNearest", "", "KNearest(%v,%d) returned %v which is not stored or was returned twice", p, k, x)
					return
				}
				seen[idOf(x)] = true
			}
			if len(got) != want {
				t.Violate("knearest", "KNearest", "", "KNearest(%v,%d) returned %d pointers with %d stored", p, k, len(got), len(live))
				return
			}
			t.Op()
		default: // find: a stored pointer iff the tree is not empty
			p := orb.Point{coord(xs, b.Min[0], b.Max[0], "qx"), coord(ys, b.Min[1], b.Max[1], "qy")}
			var got orb.Pointer
			if t.Guard("Find", func() { got = tr.Find(p) }) {
				return
			}
			if (got == nil) != (len(live) == 0) {
				t.Violate("nearest", "Find", "", "Find(%v) returned %v with %d pointers stored", p, got, len(live))
				return
			}
			t.Op()
		}
	})
	t.State(fmt.Sprintf("floaty/%v/%d", useVal, len(live)/4))
}
