// Package c03: vector tiles round-trip layers and marshal deterministically
// whatever order maps are iterated in.
package c03

import (
	"bytes"
	"encoding/json"
	"fmt"
	"math"
	"reflect"
	"sort"
	"time"

	"github.com/paulmach/orb"
	"github.com/paulmach/orb/encoding/mvt"
	"github.com/paulmach/orb/geojson"
	"github.com/paulmach/orb/verifrt"

	"verif/sim/core"
	"verif/sim/gen"
	"verif/sim/mapseam"
	"verif/sim/props"
	wm "verif/sim/wkbmodel"
)

func init() {
	props.Register(&props.Property{
		ID:    "C03",
		Level: "exploration",
		Rule: "a case is one generated layer list (0-3 layers, 0-6 features each; all geometry kinds with integer coordinates |v| < 2^28, closed rings of non-zero area with outer CCW / holes CW; " +
			"ids absent or non-negative integers of several Go types; property values over string, bool, every Go integer and float kind, nil, slices, maps). " +
			"Engine 'order' (instrumented copy): every range over a map in encoding/mvt and geojson is driven by the choice stream; the value is marshalled under two drawn iteration-order policies " +
			"(ascending vs descending, rotated, shuffled, per-loop) and the outputs must be byte-identical, plain and gzipped; then the round trip is compared with a reference model. " +
			"Engine 'roundtrip' (unmodified package): the same round-trip model plus 16 repetitions of Marshal under the real runtime's map order (uncontrolled, labelled). " +
			"The model is a deep snapshot taken before Marshal sees the layers (open rings, rings carved from one array, one-vertex lines, objects shared between features and layers, zero/default/extreme layer headers, strings that are not UTF-8); results must survive what callers do next (marshal something else, overwrite the input buffer, edit some of the decoded features in place). Distinct = distinct event-log digest; non-trivial = the layers hold at least one feature with a geometry.",
		StateDef: "distinct (geometry-kind mix, property-type mix, order-policy pair) tuples",
		Engines: []props.Engine{
			{Name: "order", Variant: "instr", Run: RunOrder, QuickRuns: 40000, Share: 0.6, MinThorough: 300000, RunTimeout: 60 * time.Second},
			{Name: "roundtrip", Variant: "plain", Run: RunRoundTrip, QuickRuns: 40000, Share: 0.4, MinThorough: 300000, RunTimeout: 60 * time.Second},
		},
		Real:  []string{"encoding/mvt", "geojson", "gogo/protobuf", "paulmach/protoscan", "compress/gzip"},
		Stub:  []string{},
		Instr: []string{"encoding/mvt (map ranges)", "geojson (map ranges)"},
		Assumptions: []string{
			"slices, maps and nil property values must come back as a string that JSON-decodes to the original (weaker than byte equality on purpose)",
			"float properties are compared numerically (+0 and -0 are the same number)",
			"which error Unmarshal gives for gzipped bytes is not part of the statement",
			"generated rings never repeat their first vertex except as the closing vertex ([a b c a a] and [a b c a] are the same ring in the format)",
		},
		NonTrivial: func(o *core.Outcome) bool { return o.Ops >= 1 },
	})
}

// ---------------------------------------------------------------- reference model

// expectGeom is what a geometry must come back as.
func expectGeom(g orb.Geometry) orb.Geometry {
	closeRing := func(r orb.Ring) orb.Ring {
		if len(r) > 0 && r[0] != r[len(r)-1] {
			return append(append(orb.Ring{}, r...), r[0])
		}
		return r
	}
	poly := func(p orb.Polygon) orb.Polygon {
		out := make(orb.Polygon, len(p))
		for i, r := range p {
			out[i] = closeRing(r)
		}
		return out
	}
	switch x := g.(type) {
	case orb.Point:
		return x
	case orb.MultiPoint:
		if len(x) == 1 {
			return x[0]
		}
		return x
	case orb.LineString:
		return x
	case orb.MultiLineString:
		if len(x) == 1 {
			return x[0]
		}
		return x
	case orb.Ring:
		return orb.Polygon{closeRing(x)}
	case orb.Bound:
		return poly(x.ToPolygon())
	case orb.Polygon:
		return poly(x)
	case orb.MultiPolygon:
		if len(x) == 1 {
			return poly(x[0])
		}
		out := make(orb.MultiPolygon, len(x))
		for i, p := range x {
			out[i] = poly(p)
		}
		return out
	}
	return g
}

func expectID(id interface{}) interface{} {
	switch v := id.(type) {
	case nil:
		return nil
	case int:
		return float64(v)
	case int64:
		return float64(v)
	case uint32:
		return float64(v)
	case uint64:
		return float64(v)
	case uint:
		return float64(v)
	case float64:
		return float64(int(v))
	}
	return id
}

// propOK compares a decoded property value with the original.
func propOK(orig, got interface{}) bool {
	num := func(f float64) bool {
		g, ok := got.(float64)
		return ok && (g == f || (math.IsNaN(g) && math.IsNaN(f)))
	}
	switch v := orig.(type) {
	case string:
		return got == v
	case bool:
		return got == v
	case int:
		return num(float64(v))
	case int8:
		return num(float64(v))
	case int16:
		return num(float64(v))
	case int32:
		return num(float64(v))
	case int64:
		return num(float64(v))
	case uint:
		return num(float64(v))
	case uint8:
		return num(float64(v))
	case uint16:
		return num(float64(v))
	case uint32:
		return num(float64(v))
	case uint64:
		return num(float64(v))
	case float32:
		return num(float64(v))
	case float64:
		return num(v)
	}
	// nil, slices, maps: a string that JSON-decodes to the original
	s, ok := got.(string)
	if !ok {
		return false
	}
	var back interface{}
	if err := json.Unmarshal([]byte(s), &back); err != nil {
		return false
	}
	want, _ := json.Marshal(orig)
	var wantBack interface{}
	json.Unmarshal(want, &wantBack)
	return reflect.DeepEqual(back, wantBack)
}

type expFeature struct {
	geom  orb.Geometry
	id    interface{}
	props geojson.Properties
	from  string
}

// expected lists the features a layer must decode to: nil geometries skipped,
// every member of a collection its own feature. firstOnly reproduces the known
// defect (only the first member of a collection is written) for alignment.
func expected(l *mvt.Layer, firstOnly bool) []expFeature {
	var out []expFeature
	for i, f := range l.Features {
		if f.Geometry == nil {
			continue
		}
		if c, ok := f.Geometry.(orb.Collection); ok {
			for j, mem := range c {
				if firstOnly && j > 0 {
					break
				}
				out = append(out, expFeature{expectGeom(mem), expectID(f.ID), f.Properties, fmt.Sprintf("feature %d member %d", i, j)})
			}
			continue
		}
		out = append(out, expFeature{expectGeom(f.Geometry), expectID(f.ID), f.Properties, fmt.Sprintf("feature %d", i)})
	}
	return out
}

func hasCollection(ls mvt.Layers) (any, empty bool) {
	for _, l := range ls {
		for _, f := range l.Features {
			if c, ok := f.Geometry.(orb.Collection); ok {
				any = true
				if len(c) == 0 {
					empty = true
				}
			}
		}
	}
	return
}

// compare checks decoded layers against the model.
func compare(t *core.T, api string, in, out mvt.Layers) {
	if len(in) != len(out) {
		t.Violate("layers", api, "", "%d layers marshalled, %d came back", len(in), len(out))
		return
	}
	for li, l := range in {
		o := out[li]
		if o.Name != l.Name || o.Version != l.Version || o.Extent != l.Extent {
			t.Violate("layer-header", api, "", "layer %d: wrote name=%q version=%d extent=%d, read name=%q version=%d extent=%d", li, l.Name, l.Version, l.Extent, o.Name, o.Version, o.Extent)
			return
		}
		exp := expected(l, false)
		if len(o.Features) != len(exp) {
			defective := expected(l, true)
			if len(o.Features) == len(defective) {
				t.Violate("collection-flatten", api, "", "layer %d: a feature whose geometry is a collection must become one feature per member: expected %d features, got %d (only the first member was written)", li, len(exp), len(o.Features))
				exp = defective // keep checking everything else on the same input
			} else {
				t.Violate("feature-count", api, "", "layer %d: expected %d features (nil geometries skipped), got %d", li, len(exp), len(o.Features))
				return
			}
		}
		for fi, e := range exp {
			if skipEdited != nil && skipEdited(li, fi) {
				continue
			}
			f := o.Features[fi]
			if !wm.Equal(f.Geometry, e.geom) {
				t.Violate("geometry", api, fmt.Sprintf("%T", e.geom), "layer %d %s: wrote %s, read %s", li, e.from, gen.Describe(e.geom), gen.Describe(f.Geometry))
				return
			}
			if f.ID != e.id {
				t.Violate("id", api, "", "layer %d %s: expected id %v (%T), read %v (%T)", li, e.from, e.id, e.id, f.ID, f.ID)
				return
			}
			if len(f.Properties) != len(e.props) {
				t.Violate("properties", api, "", "layer %d %s: wrote %d properties, read %d: %v vs %v", li, e.from, len(e.props), len(f.Properties), e.props, f.Properties)
				return
			}
			keys := make([]string, 0, len(e.props))
			for k := range e.props {
				keys = append(keys, k)
			}
			sort.Strings(keys) // the harness never depends on Go's map order
			for _, k := range keys {
				v := e.props[k]
				got, ok := f.Properties[k]
				if !ok || !propOK(v, got) {
					t.Violate("properties", api, fmt.Sprintf("%T", v), "layer %d %s: property %q wrote %#v (%T), read %#v (%T)", li, e.from, k, v, v, got, got)
					return
				}
			}
		}
	}
}

func mixSig(ls mvt.Layers) string {
	g, p := map[string]bool{}, map[string]bool{}
	for _, l := range ls {
		for _, f := range l.Features {
			g[fmt.Sprintf("%T", f.Geometry)] = true
			for _, v := range f.Properties {
				p[fmt.Sprintf("%T", v)] = true
			}
		}
	}
	return fmt.Sprintf("%d/%d/%d", len(ls), len(g), len(p))
}

func countGeoms(ls mvt.Layers) int {
	n := 0
	for _, l := range ls {
		for _, f := range l.Features {
			if f.Geometry != nil {
				n++
			}
		}
	}
	return n
}

// snapshot is a deep copy of the layers taken before the library sees them:
// the model is what the caller wrote, whatever Marshal does to its argument.
func snapshot(ls mvt.Layers) mvt.Layers {
	out := make(mvt.Layers, len(ls))
	for i, l := range ls {
		c := &mvt.Layer{Name: l.Name, Version: l.Version, Extent: l.Extent}
		for _, f := range l.Features {
			g := &geojson.Feature{ID: f.ID, Type: f.Type}
			if f.Geometry != nil {
				g.Geometry = orb.Clone(f.Geometry)
			}
			if f.Properties != nil {
				g.Properties = geojson.Properties{}
				for k, v := range f.Properties {
					g.Properties[k] = v
				}
			}
			c.Features = append(c.Features, g)
		}
		out[i] = c
	}
	return out
}

// skipEdited tells compare which decoded features the harness has edited on purpose.
var skipEdited func(li, fi int) bool

// scribble edits a decoded feature the way a caller might: every coordinate, every property.
func scribble(f *geojson.Feature) {
	for k := range f.Properties {
		f.Properties[k] = "edited-by-the-caller"
	}
	if f.Properties != nil {
		f.Properties["added-by-the-caller"] = true
	}
	var pts func(g orb.Geometry)
	pts = func(g orb.Geometry) {
		switch x := g.(type) {
		case orb.MultiPoint:
			for i := range x {
				x[i] = orb.Point{-7, -7}
			}
		case orb.LineString:
			pts(orb.MultiPoint(x))
		case orb.Ring:
			pts(orb.MultiPoint(x))
		case orb.MultiLineString:
			for _, l := range x {
				pts(l)
			}
		case orb.Polygon:
			for _, r := range x {
				pts(r)
			}
		case orb.MultiPolygon:
			for _, p := range x {
				pts(p)
			}
		case orb.Collection:
			for _, m := range x {
				pts(m)
			}
		}
	}
	pts(f.Geometry)
	f.ID = "edited"
}

// roundTrip marshals, unmarshals (plain and gzipped) and compares with the model.
func roundTrip(t *core.T, given mvt.Layers) (data []byte, ok bool) {
	var err error
	ls := given
	given = nil
	snap := snapshot(ls)
	if t.Guard("mvt.Marshal", func() { data, err = mvt.Marshal(ls) }) {
		return nil, false
	}
	_, emptyColl := hasCollection(ls)
	if err != nil {
		if emptyColl {
			t.Violate("collection-flatten", "mvt.Marshal", "", "a feature whose geometry is an empty collection makes Marshal fail (%v); it should contribute no feature", err)
			return nil, false
		}
		t.Violate("marshal-error", "mvt.Marshal", "", "Marshal failed on valid layers: %v\n%s", err, gen.DescribeLayers(ls))
		return nil, false
	}
	var out mvt.Layers
	if t.Guard("mvt.Unmarshal", func() { out, err = mvt.Unmarshal(data) }) {
		return data, false
	}
	if err != nil {
		t.Violate("unmarshal-error", "mvt.Unmarshal", "", "Unmarshal of Marshal's own output failed: %v\n%s", err, gen.DescribeLayers(ls))
		return data, false
	}
	compare(t, "mvt.Unmarshal", snap, out)
	var gz []byte
	if t.Guard("mvt.MarshalGzipped", func() { gz, err = mvt.MarshalGzipped(ls) }) {
		return data, false
	}
	if err != nil {
		t.Violate("marshal-error", "mvt.MarshalGzipped", "", "MarshalGzipped failed: %v", err)
		return data, false
	}
	var out2 mvt.Layers
	if t.Guard("mvt.UnmarshalGzipped", func() { out2, err = mvt.UnmarshalGzipped(gz) }) {
		return data, false
	}
	if err != nil {
		t.Violate("unmarshal-error", "mvt.UnmarshalGzipped", "", "UnmarshalGzipped of MarshalGzipped's output failed: %v", err)
		return data, false
	}
	compare(t, "mvt.UnmarshalGzipped", snap, out2)
	if t.Failed() {
		return data, false
	}
	// Aliasing: what Marshal/Unmarshal handed out must stay what it was when the caller
	// goes on working - marshals another value, reuses the input buffer.
	keepPlain, keepGz := append([]byte{}, data...), append([]byte{}, gz...)
	other := mvt.Layers{&mvt.Layer{Name: "other-layer-with-a-longer-name", Version: 2, Extent: 512,
		Features: []*geojson.Feature{{Type: "Feature", Geometry: orb.Point{7, 7}, Properties: geojson.Properties{"zzz": "a-different-value", "n": 12345.0}}}}}
	if t.Guard("mvt.Marshal", func() { mvt.Marshal(other); mvt.MarshalGzipped(other) }) {
		return data, false
	}
	if !bytes.Equal(data, keepPlain) || !bytes.Equal(gz, keepGz) {
		t.Violate("result-aliased", "mvt.Marshal", "", "the bytes returned by Marshal/MarshalGzipped changed when another value was marshalled afterwards")
		return data, false
	}
	scratch := append([]byte{}, data...)
	var out3 mvt.Layers
	if t.Guard("mvt.Unmarshal", func() { out3, err = mvt.Unmarshal(scratch) }) || err != nil {
		return data, false
	}
	for i := range scratch {
		scratch[i] = 0xAA // the caller reuses its read buffer
	}
	compare(t, "mvt.Unmarshal(input buffer reused afterwards)", snap, out3)
	if t.Failed() {
		return data, false
	}
	// the caller edits some of the decoded features in place: the others must not change with them
	salt := t.Src.Intn(4, "editsalt")
	edited := func(li, fi int) bool { return (li*5+fi*3+salt)%2 == 0 }
	for li, l := range out3 {
		for fi, f := range l.Features {
			if edited(li, fi) {
				scribble(f)
			}
		}
	}
	skipEdited = edited
	compare(t, "mvt.Unmarshal(other decoded features edited afterwards)", snap, out3)
	skipEdited = nil
	return data, !t.Failed()
}

func drawLayers(t *core.T) mvt.Layers {
	s := t.Src
	o := gen.LayerOpts{NilGeoms: true, Repetitive: true, Collections: s.Chance(1, 4, "collections")}
	ls := gen.Layers(s, o)
	t.Logf("layers: %s", gen.DescribeLayers(ls))
	return ls
}

// RunRoundTrip: unmodified package; model comparison + repeated Marshal under the real runtime order.
func RunRoundTrip(t *core.T) {
	ls := drawLayers(t)
	t.State("rt/" + mixSig(ls))
	data, ok := roundTrip(t, ls)
	if !ok || data == nil {
		return
	}
	for i := 0; i < 16; i++ {
		var again []byte
		var err error
		if t.Guard("mvt.Marshal", func() { again, err = mvt.Marshal(ls) }) {
			return
		}
		if err != nil || !bytes.Equal(again, data) {
			t.Violate("deterministic-marshal", "mvt.Marshal(runtime map order)", "", "repetition %d of Marshal on the same layers gave different bytes (err %v)\n%s", i, err, gen.DescribeLayers(ls))
			return
		}
	}
	for i := 0; i < countGeoms(ls); i++ {
		t.Op()
	}
}

// RunOrder: instrumented copy; Marshal under two iteration-order policies must agree byte for byte.
func RunOrder(t *core.T) {
	s := t.Src
	// whether a sync.Pool hands back a pooled object is a choice of the run (instrumented copy)
	verifrt.ResetPools()
	verifrt.PoolHook = func(n int) bool { return !s.Chance(1, 4, "pool-fresh") }
	defer func() { verifrt.PoolHook = nil }()
	ls := drawLayers(t)
	// adversarial pair first, then drawn policies
	var pa, pb int
	switch s.Pick([]int{3, 2, 2, 2}, "pair") {
	case 0:
		pa, pb = mapseam.Ascending, mapseam.Descending
	case 1:
		pa, pb = mapseam.Ascending, mapseam.Rotated
	case 2:
		pa, pb = mapseam.Shuffled, mapseam.Shuffled
	default:
		pa, pb = mapseam.Drawn, mapseam.Drawn
	}
	t.Logf("order policies: %s vs %s", mapseam.PolicyNames[pa], mapseam.PolicyNames[pb])
	t.State(fmt.Sprintf("order/%s/%d/%d", mixSig(ls), pa, pb))
	ha := &mapseam.Hook{T: t, Policy: pa, NewKeys: 2}
	hb := &mapseam.Hook{T: t, Policy: pb, NewKeys: 2}
	var a, b, ga, gb []byte
	var ea, eb error
	bad := false
	mapseam.With(ha, func() {
		bad = t.Guard("mvt.Marshal", func() { a, ea = mvt.Marshal(ls) }) || t.Guard("mvt.MarshalGzipped", func() { ga, _ = mvt.MarshalGzipped(ls) })
	})
	if bad {
		return
	}
	mapseam.With(hb, func() {
		bad = t.Guard("mvt.Marshal", func() { b, eb = mvt.Marshal(ls) }) || t.Guard("mvt.MarshalGzipped", func() { gb, _ = mvt.MarshalGzipped(ls) })
	})
	if bad {
		return
	}
	if (ea == nil) != (eb == nil) {
		t.Violate("deterministic-marshal", "mvt.Marshal", "", "Marshal failed under one map order only: %v / %v", ea, eb)
		return
	}
	if ea == nil && !bytes.Equal(a, b) {
		t.Violate("deterministic-marshal", "mvt.Marshal", "", "Marshal of the same layers gave different bytes under map orders %s and %s:\n%x\n%x\n%s",
			mapseam.PolicyNames[pa], mapseam.PolicyNames[pb], a, b, gen.DescribeLayers(ls))
		return
	}
	if ea == nil && !bytes.Equal(ga, gb) {
		t.Violate("deterministic-marshal", "mvt.MarshalGzipped", "", "MarshalGzipped of the same layers gave different bytes under map orders %s and %s", mapseam.PolicyNames[pa], mapseam.PolicyNames[pb])
		return
	}
	t.ProbeN("seamed_map_loops", ha.Loops+hb.Loops)
	// the round trip under a third drawn order
	hc := &mapseam.Hook{T: t, Policy: mapseam.Drawn, NewKeys: 2}
	mapseam.With(hc, func() { roundTrip(t, ls) })
	for i := 0; i < countGeoms(ls); i++ {
		t.Op()
	}
}
