package c05

import (
	"bytes"
	"compress/gzip"
	"encoding/binary"
	"encoding/json"
	"fmt"
	"regexp"
	"sort"
	"strings"

	"github.com/gogo/protobuf/proto"
	"github.com/paulmach/orb/encoding/mvt/vectortile"
	"go.mongodb.org/mongo-driver/bson"
	"go.mongodb.org/mongo-driver/bson/primitive"

	"verif/sim/core"
	"verif/sim/simio"
)

// Engine 'hostile': inputs that are WELL-FRAMED (valid protobuf / JSON / BSON /
// gzip / WKB nesting) but semantically hostile. Byte-level faults mostly die in
// the framing layer of encoding/json, bson or protoscan; these reach orb's own
// code behind it: a media fault that lands inside a value, a writer of another
// version, a misdirected document.

// ---- tiles built from the wire structs

func hostileTile(s *core.Source) ([]byte, string) {
	tile := &vectortile.Tile{}
	var desc []string
	s.Repeat(0, 2, 3, "hlayer", func(int) {
		l := &vectortile.Tile_Layer{}
		name := []string{"a", "", "roads"}[s.Intn(3, "name")]
		l.Name = &name
		v := uint32([]int{1, 2, 0, 7}[s.Intn(4, "version")])
		l.Version = &v
		if s.Bool("extent?") {
			e := uint32([]int{4096, 0, 1, 1<<32 - 1}[s.Intn(4, "extent")])
			l.Extent = &e
		}
		nk := s.Intn(3, "nkeys")
		for i := 0; i < nk; i++ {
			l.Keys = append(l.Keys, []string{"k", "", "name"}[s.Intn(3, "key")])
		}
		nv := s.Intn(3, "nvalues")
		for i := 0; i < nv; i++ {
			tv := &vectortile.Tile_Value{}
			switch s.Intn(9, "vk") {
			case 0: // a value message with no field at all
			case 1:
				x := "v"
				tv.StringValue = &x
			case 2:
				x := float32(1.5)
				tv.FloatValue = &x
			case 3:
				x := 2.5
				tv.DoubleValue = &x
			case 4:
				x := int64(-3)
				tv.IntValue = &x
			case 5:
				x := uint64(1<<64 - 1)
				tv.UintValue = &x
			case 6:
				x := int64(-1 << 63)
				tv.SintValue = &x
			case 7:
				x := true
				tv.BoolValue = &x
			default: // two fields at once
				x, y := "v", true
				tv.StringValue, tv.BoolValue = &x, &y
			}
			l.Values = append(l.Values, tv)
		}
		s.Repeat(0, 2, 4, "hfeature", func(int) {
			f := &vectortile.Tile_Feature{}
			if s.Bool("id?") {
				id := []uint64{0, 1, 1 << 53, 1<<64 - 1}[s.Intn(4, "id")]
				f.Id = &id
			}
			if !s.Chance(1, 6, "notype") {
				gt := vectortile.Tile_GeomType([]int32{1, 2, 3, 0, 4, -1}[s.Pick([]int{3, 3, 3, 1, 1, 1}, "gtype")])
				f.Type = &gt
			}
			// tags: indices inside and outside the tables, odd lengths
			nt := s.Pick([]int{2, 2, 2, 1, 1}, "ntags")
			for i := 0; i < nt; i++ {
				f.Tags = append(f.Tags, uint32([]int{0, 1, 2, 3, 1<<32 - 1}[s.Pick([]int{4, 3, 2, 1, 1}, "tag")]))
			}
			// geometry: a command stream that is well-formed protobuf but possibly nonsense
			if !s.Chance(1, 8, "nogeom") {
				var cmds []string
				s.Repeat(0, 3, 8, "cmd", func(int) {
					cmd := uint32([]int{1, 2, 7, 0, 3, 5}[s.Pick([]int{4, 4, 3, 1, 1, 1}, "cmdid")])
					count := uint32([]int{1, 0, 2, 3, 1 << 20, 1<<29 - 1}[s.Pick([]int{6, 2, 3, 2, 1, 1}, "count")])
					f.Geometry = append(f.Geometry, count<<3|cmd)
					// parameters: the promised number, fewer, or more
					want := 0
					if cmd != 7 && count < 64 {
						want = int(2 * count)
					}
					switch s.Pick([]int{6, 2, 1}, "params") {
					case 1:
						if want > 0 {
							want--
						}
					case 2:
						want += 2
					}
					for i := 0; i < want; i++ {
						f.Geometry = append(f.Geometry, uint32([]int{2, 0, 1, 3, 1<<32 - 1, 1 << 31}[s.Pick([]int{5, 3, 3, 2, 1, 1}, "param")]))
					}
					cmds = append(cmds, fmt.Sprintf("%d*%d", cmd, count))
				})
				desc = append(desc, strings.Join(cmds, ","))
			}
			l.Features = append(l.Features, f)
		})
		tile.Layers = append(tile.Layers, l)
	})
	data, err := proto.Marshal(tile)
	if err != nil {
		return nil, ""
	}
	return data, fmt.Sprintf("tile from wire structs: %d layers, command streams [%s]", len(tile.Layers), strings.Join(desc, " | "))
}

// ---- structure-aware JSON mutation

var jsonReplacements = []string{`null`, `[]`, `{}`, `0`, `"x"`, `true`, `[0,0,0]`, `[[0,0]]`, `[[[0,0],[1,1]]]`, `[null]`, `{"type":"Point"}`, `{"type":"Point","coordinates":null}`,
	`{"type":"GeometryCollection","geometries":null}`, `[1e400]`, `-0`, `{"type":null}`, `[[[[[[0,0]]]]]]`, `"Feature"`, `[0]`, `[0,0,0,0]`}

// mutateJSON parses a valid document and replaces / deletes / duplicates one node.
func mutateJSON(s *core.Source, doc []byte) ([]byte, string) {
	var tree interface{}
	if json.Unmarshal(doc, &tree) != nil {
		return nil, ""
	}
	// collect node paths
	type slot struct {
		parent interface{}
		key    string
		idx    int
	}
	var slots []slot
	var walk func(n interface{})
	walk = func(n interface{}) {
		switch x := n.(type) {
		case map[string]interface{}:
			keys := make([]string, 0, len(x))
			for k := range x {
				keys = append(keys, k)
			}
			sort.Strings(keys)
			for _, k := range keys {
				slots = append(slots, slot{parent: x, key: k})
				walk(x[k])
			}
		case []interface{}:
			for i := range x {
				slots = append(slots, slot{parent: x, idx: i})
				walk(x[i])
			}
		}
	}
	walk(tree)
	if len(slots) == 0 {
		return []byte(jsonReplacements[s.Intn(len(jsonReplacements), "repl")]), "document replaced"
	}
	sl := slots[s.Intn(len(slots), "slot")]
	var repl interface{}
	rs := jsonReplacements[s.Intn(len(jsonReplacements), "repl")]
	json.Unmarshal([]byte(rs), &repl)
	what := ""
	switch p := sl.parent.(type) {
	case map[string]interface{}:
		switch s.Pick([]int{5, 2, 1}, "jop") {
		case 0:
			p[sl.key] = repl
			what = fmt.Sprintf("member %q replaced by %s", sl.key, rs)
		case 1:
			delete(p, sl.key)
			what = fmt.Sprintf("member %q removed", sl.key)
		default:
			p[strings.ToUpper(sl.key)] = p[sl.key]
			delete(p, sl.key)
			what = fmt.Sprintf("member %q renamed to upper case", sl.key)
		}
	case []interface{}:
		p[sl.idx] = repl
		what = fmt.Sprintf("array element %d replaced by %s", sl.idx, rs)
	}
	out, err := json.Marshal(tree)
	if err != nil {
		return nil, ""
	}
	return out, what
}

// ---- structure-aware BSON mutation (bson.D keeps member order: deterministic)

func bsonReplacement(s *core.Source) (interface{}, string) {
	switch s.Intn(12, "brepl") {
	case 0:
		return nil, "null"
	case 1:
		return bson.A{}, "[]"
	case 2:
		return bson.D{}, "{}"
	case 3:
		return int32(0), "int32 0"
	case 4:
		return "x", `"x"`
	case 5:
		return true, "true"
	case 6:
		return bson.A{0.0, 0.0, 0.0}, "[0,0,0]"
	case 7:
		return bson.A{nil}, "[null]"
	case 8:
		return bson.D{{Key: "type", Value: "Point"}}, `{type:"Point"}`
	case 9:
		return primitive.Binary{Data: []byte{1, 2}}, "binary"
	case 10:
		return int64(1) << 40, "int64"
	default:
		return bson.A{bson.A{bson.A{bson.A{0.0, 0.0}}}}, "[[[[0,0]]]]"
	}
}

func mutateBSON(s *core.Source, doc []byte) ([]byte, string) {
	var d bson.D
	if bson.Unmarshal(doc, &d) != nil {
		return nil, ""
	}
	type slot struct {
		d   *bson.D
		a   bson.A
		idx int
	}
	var slots []slot
	var walkD func(d *bson.D)
	var walkV func(v interface{})
	walkD = func(d *bson.D) {
		for i := range *d {
			slots = append(slots, slot{d: d, idx: i})
			switch x := (*d)[i].Value.(type) {
			case bson.D:
				sub := x
				walkD(&sub)
				(*d)[i].Value = sub
			default:
				walkV(x)
			}
		}
	}
	walkV = func(v interface{}) {
		if a, ok := v.(bson.A); ok {
			for i := range a {
				slots = append(slots, slot{a: a, idx: i})
				if sub, ok := a[i].(bson.D); ok {
					walkD(&sub)
					a[i] = sub
				} else {
					walkV(a[i])
				}
			}
		}
	}
	walkD(&d)
	if len(slots) == 0 {
		return nil, ""
	}
	sl := slots[s.Intn(len(slots), "bslot")]
	repl, rs := bsonReplacement(s)
	what := ""
	if sl.d != nil {
		if s.Chance(1, 5, "bdel") {
			what = fmt.Sprintf("member %q removed", (*sl.d)[sl.idx].Key)
			*sl.d = append((*sl.d)[:sl.idx], (*sl.d)[sl.idx+1:]...)
		} else {
			what = fmt.Sprintf("member %q replaced by %s", (*sl.d)[sl.idx].Key, rs)
			(*sl.d)[sl.idx].Value = repl
		}
	} else {
		what = fmt.Sprintf("array element %d replaced by %s", sl.idx, rs)
		sl.a[sl.idx] = repl
	}
	out, err := bson.Marshal(d)
	if err != nil {
		return nil, ""
	}
	return out, what
}

// ---- nesting

func nest(s *core.Source, fam int, data []byte) ([]byte, string) {
	k := []int{1, 2, 8, 64, 500, 3000}[s.Pick([]int{3, 3, 3, 2, 1, 1}, "depth")]
	if fam == famJSON && k > 300 {
		// nested GeoJSON collections decode in quadratic time (each level re-parses
		// its raw members): 300 levels take ~25 ms per decoder, 3000 take 2 s. Slow is
		// not "loops forever"; inputs are kept where a run stays far below the watchdog.
		k = 300
	}
	switch fam {
	case famWKB:
		hdr := []byte{1, 7, 0, 0, 0, 1, 0, 0, 0}
		if len(data) > 0 && data[0] == 0 {
			hdr = []byte{0, 0, 0, 0, 7, 0, 0, 0, 1}
		}
		out := bytes.Repeat(hdr, k)
		return append(out, data...), fmt.Sprintf("wrapped in %d collection headers", k)
	case famWKT:
		return []byte(strings.Repeat("GEOMETRYCOLLECTION(", k) + string(data) + strings.Repeat(")", k)), fmt.Sprintf("wrapped in %d GEOMETRYCOLLECTION( )", k)
	case famJSON:
		return []byte(strings.Repeat(`{"type":"GeometryCollection","geometries":[`, k) + string(data) + strings.Repeat("]}", k)), fmt.Sprintf("wrapped in %d geometry collections", k)
	}
	return nil, ""
}

// ---- gzip

func gzipOf(b []byte) []byte {
	var buf bytes.Buffer
	w, _ := gzip.NewWriterLevel(&buf, gzip.BestCompression)
	w.Write(b)
	w.Close()
	return buf.Bytes()
}

func hostileGzip(s *core.Source, tile []byte) ([]byte, string) {
	switch s.Intn(5, "gzkind") {
	case 0:
		n := []int{1 << 10, 1 << 16, 1 << 20, 1 << 22}[s.Intn(4, "bomb")]
		fill := byte([]int{0, 0x1a, 0xff}[s.Intn(3, "fill")])
		return gzipOf(bytes.Repeat([]byte{fill}, n)), fmt.Sprintf("gzip of %d bytes of %#x", n, fill)
	case 1:
		g := gzipOf(tile)
		cut := s.Intn(len(g)+1, "gzcut")
		return g[:cut], fmt.Sprintf("gzipped tile truncated to %d of %d bytes", cut, len(g))
	case 2:
		return gzipOf(gzipOf(tile)), "tile gzipped twice"
	case 3:
		g := gzipOf(tile)
		return append(g, g...), "two gzip members"
	default:
		// a large (incompressible) stream whose size trailer lies
		n := []int{33 << 10, 48 << 10, 70 << 10}[s.Intn(3, "bigz")]
		x := core.NewXoshiro(uint64(n))
		raw := make([]byte, n)
		for i := range raw {
			raw[i] = byte(x.Next())
		}
		g := gzipOf(raw)
		copy(g[len(g)-4:], []byte{0xff, 0xff, 0xff, byte([]int{0xff, 0x7f, 0x3f}[s.Intn(3, "isize")])})
		return g, fmt.Sprintf("%d KiB gzip stream whose ISIZE trailer claims gigabytes", n>>10)
	}
}

// ---- WKT: hostile numbers and foreign prefixes in otherwise valid text

var hostileNumbers = []string{"0.00000000000000000000001", "0.000000000000000000000000000000000001e30", "123456789012345678901234567890", "1e400", "-1e-400", "1e", "1e+", ".", "-", "+1", "-.5", "5.", "0x10", "Inf", "-inf", "NaN", "1_000", "١٢", "1,5", "1e3e3", "00000000000000000000000000000000000000001", "1.7976931348623157e308", "4.9e-324", "9007199254740993"}
var wktPrefixes = []string{"SRID=4326;", "SRID=4326 ", "SRID=", "srid=0;", "SRID=;", "SRID=x;", ";", "\ufeff", "\x00", "\t\r\n", "\u00a0", "SRID=4326;SRID=4326;"}

var wktNumberRE = regexp.MustCompile(`[-+]?[0-9]*\.?[0-9]+([eE][-+]?[0-9]+)?`)

func hostileWKT(s *core.Source, text string) (string, string) {
	what := ""
	if s.Chance(2, 3, "wkt-number") {
		locs := wktNumberRE.FindAllStringIndex(text, -1)
		if len(locs) > 0 {
			l := locs[s.Intn(len(locs), "numpos")]
			n := hostileNumbers[s.Intn(len(hostileNumbers), "hnum")]
			text = text[:l[0]] + n + text[l[1]:]
			what = "number replaced by " + n
		}
	}
	if what == "" || s.Chance(1, 3, "wkt-prefix") {
		pfx := wktPrefixes[s.Intn(len(wktPrefixes), "pfx")]
		if s.Bool("inside") && strings.Contains(text, "(") {
			i := strings.Index(text, "(") + 1
			text = text[:i] + pfx + text[i:]
			what += fmt.Sprintf(" %q inserted after the first parenthesis", pfx)
		} else {
			text = pfx + text
			what += fmt.Sprintf(" prefixed with %q", pfx)
		}
	}
	return text, what
}

// ---- protobuf written by hand: framing stays consistent, field contents are hostile

func pbVarint(v uint64, pad int) []byte {
	var b []byte
	for v >= 0x80 {
		b = append(b, byte(v)|0x80)
		v >>= 7
	}
	b = append(b, byte(v))
	for i := 0; i < pad; i++ { // over-long encoding: continuation bytes carrying zero bits
		b[len(b)-1] |= 0x80
		b = append(b, 0)
	}
	return b
}

func pbField(num, wire int, payload []byte) []byte {
	return append(pbVarint(uint64(num<<3|wire), 0), payload...)
}

func pbBytes(num int, payload []byte) []byte {
	return pbField(num, 2, append(pbVarint(uint64(len(payload)), 0), payload...))
}

func hostileVarint(s *core.Source) []byte {
	switch s.Intn(6, "hv") {
	case 0:
		return pbVarint(1, 10) // 11 bytes: longer than any valid varint
	case 1:
		return bytes.Repeat([]byte{0xff}, 12)
	case 2:
		return append(bytes.Repeat([]byte{0xff}, 9), 0x01) // 2^64-1
	case 3:
		return append(bytes.Repeat([]byte{0xff}, 9), 0x7f) // overflows 64 bits
	case 4:
		return pbVarint(uint64(s.Intn(300, "v")), s.Intn(4, "pad"))
	default:
		return []byte{0x80} // continuation bit, then the message ends
	}
}

func rawTile(s *core.Source) ([]byte, string) {
	var feat []byte
	var what []string
	s.Repeat(1, 3, 6, "rawfield", func(int) {
		num := []int{1, 2, 3, 4, 5, 15, 0, 99}[s.Intn(8, "fnum")]
		switch s.Intn(4, "fwire") {
		case 0:
			feat = append(feat, pbField(num, 0, hostileVarint(s))...)
			what = append(what, fmt.Sprintf("field %d varint", num))
		case 1:
			var packed []byte
			s.Repeat(0, 3, 8, "pk", func(int) { packed = append(packed, hostileVarint(s)...) })
			feat = append(feat, pbBytes(num, packed)...)
			what = append(what, fmt.Sprintf("field %d packed", num))
		case 2:
			feat = append(feat, pbField(num, []int{1, 5, 3, 4, 6, 7}[s.Intn(6, "wt")], drawRaw(s, s.Intn(9, "n")))...)
			what = append(what, fmt.Sprintf("field %d odd wire type", num))
		default:
			// a length that points beyond the end of the feature
			feat = append(feat, pbField(num, 2, pbVarint(uint64(s.Intn(1<<20, "len")), 0))...)
			what = append(what, fmt.Sprintf("field %d length beyond end", num))
		}
	})
	layer := append(pbBytes(1, []byte("l")), pbField(15, 0, pbVarint(2, 0))...)
	layer = append(layer, pbBytes(3, []byte("k"))...)
	layer = append(layer, pbBytes(4, pbBytes(1, []byte("v")))...)
	layer = append(layer, pbBytes(2, feat)...)
	if s.Bool("twice") {
		layer = append(layer, pbBytes(2, feat)...)
	}
	return pbBytes(3, layer), "hand-written protobuf feature: " + strings.Join(what, ", ")
}

func drawRaw(s *core.Source, n int) []byte {
	b := make([]byte, n)
	for i := range b {
		b[i] = byte(s.Intn(256, "rb"))
	}
	return b
}

// ---- bulk: inputs with enough REAL data to get past the first length check

var doubleBomb []byte

func bulk(s *core.Source) (fam int, data []byte, what string) {
	n := []int{100, 1000, 4000, 10001, 10300}[s.Pick([]int{2, 2, 2, 2, 1}, "bulkn")]
	switch s.Intn(7, "bulkkind") {
	case 0: // WKB line string / ring with n real points and an inflated count
		be := s.Bool("be")
		var bo binary.ByteOrder = binary.LittleEndian
		ob := byte(1)
		if be {
			bo, ob = binary.BigEndian, 0
		}
		count := []uint32{uint32(n), 1 << 24, 1 << 28, 1<<32 - 1, uint32(n) + 1}[s.Intn(5, "claimed")]
		w4 := func(v uint32) []byte { b := make([]byte, 4); bo.PutUint32(b, v); return b }
		var b []byte
		kind := s.Intn(3, "bulkwkb")
		switch kind {
		case 0:
			b = append([]byte{ob}, w4(2)...)
		case 1:
			b = append(append([]byte{ob}, w4(3)...), w4(1)...)
		default:
			b = append(append(append([]byte{ob}, w4(7)...), w4(1)...), append([]byte{ob}, w4(2)...)...)
		}
		b = append(b, w4(count)...)
		b = append(b, make([]byte, 16*n)...)
		return famWKB, b, fmt.Sprintf("wkb kind %d with %d real points claiming %d", kind, n, count)
	case 1: // WKB multi geometry with n tiny members
		typ := []byte{4, 5, 6, 7}[s.Intn(4, "mtype")]
		member := map[byte][]byte{
			4: append([]byte{1, 1, 0, 0, 0}, make([]byte, 16)...),
			5: {1, 2, 0, 0, 0, 0, 0, 0, 0},
			6: {1, 3, 0, 0, 0, 0, 0, 0, 0},
			7: {1, 7, 0, 0, 0, 0, 0, 0, 0},
		}[typ]
		b := []byte{1, typ, 0, 0, 0}
		c := make([]byte, 4)
		binary.LittleEndian.PutUint32(c, uint32(n))
		b = append(b, c...)
		b = append(b, bytes.Repeat(member, n)...)
		return famWKB, b, fmt.Sprintf("wkb multi type %d with %d tiny members", typ, n)
	case 2: // WKT with n tiny members
		head, member := "", ""
		switch s.Intn(5, "wktbulk") {
		case 0:
			head, member = "POLYGON(", "(1 1,2 2,1 1)"
		case 1:
			head, member = "MULTIPOINT(", "(1 2)"
		case 2:
			head, member = "MULTILINESTRING(", "(1 2,3 4)"
		case 3:
			head, member = "MULTIPOLYGON(", "((1 1,2 2,1 1))"
		default:
			head, member = "GEOMETRYCOLLECTION(", "POINT(1 2)"
		}
		if n > 4000 {
			n = 4000
		}
		return famWKT, []byte(head + strings.TrimSuffix(strings.Repeat(member+",", n), ",") + ")"), fmt.Sprintf("%s with %d members", head, n)
	case 3: // GeoJSON feature collection with n tiny features
		if n > 4000 {
			n = 4000
		}
		f := `{"type":"Feature","geometry":{"type":"Point","coordinates":[1,2]},"properties":null}`
		return famJSON, []byte(`{"type":"FeatureCollection","features":[` + strings.TrimSuffix(strings.Repeat(f+",", n), ",") + `]}`), fmt.Sprintf("feature collection with %d features", n)
	case 4: // GeoJSON multi geometry with n members
		if n > 4000 {
			n = 4000
		}
		return famJSON, []byte(`{"type":"MultiLineString","coordinates":[` + strings.TrimSuffix(strings.Repeat(`[[1,2],[3,4]],`, n), ",") + `]}`), fmt.Sprintf("multi line string with %d lines", n)
	case 5: // gzip of gzip of 32 MB of zeros (built once per process; deterministic)
		if doubleBomb == nil {
			doubleBomb = gzipOf(gzipOf(make([]byte, 32<<20)))
		}
		return famMVT, doubleBomb, "gzip of gzip of 32 MB of zeros"
	default: // a tile with one feature repeated n times
		if n > 4000 {
			n = 4000
		}
		name, v, gt := "l", uint32(2), vectortile.Tile_POINT
		f := &vectortile.Tile_Feature{Type: &gt, Geometry: []uint32{9, 2, 2}}
		l := &vectortile.Tile_Layer{Name: &name, Version: &v}
		for i := 0; i < n; i++ {
			l.Features = append(l.Features, f)
		}
		data, _ := proto.Marshal(&vectortile.Tile{Layers: []*vectortile.Tile_Layer{l}})
		if s.Bool("gz") {
			return famMVT, gzipOf(data), fmt.Sprintf("gzipped tile with %d identical features", n)
		}
		return famMVT, data, fmt.Sprintf("tile with %d identical features", n)
	}
}

// RunHostile: well-framed hostile inputs.
func RunHostile(t *core.T) {
	warmUp()
	s := t.Src
	c := newCtx(t)
	n := 0
	s.Repeat(1, 12, 24, "case", func(int) {
		if t.Unlisted() >= 4 {
			return
		}
		var data []byte
		var what string
		fam := famMVT
		switch s.Pick([]int{4, 3, 3, 2, 1, 1, 2, 2}, "hkind") {
		case 5:
			fam, data, what = bulk(s)
			t.Fault("bulk_input")
		case 6:
			b, ok := store(t, famWKT)
			if !ok {
				return
			}
			fam = famWKT
			txt, w := hostileWKT(s, string(b.data))
			data, what = []byte(txt), "wkt: "+w
			t.Fault("wkt_hostile_number_or_prefix")
		case 7:
			data, what = rawTile(s)
			if s.Chance(1, 5, "gz") {
				data, what = gzipOf(data), what+" (gzipped)"
			}
			t.Fault("raw_protobuf")
		case 0:
			data, what = hostileTile(s)
			if data != nil && s.Chance(1, 4, "gz") {
				data, what = gzipOf(data), what+" (gzipped)"
			}
			t.Fault("hostile_tile")
		case 1:
			b, ok := store(t, famJSON)
			if !ok {
				return
			}
			fam = famJSON
			data, what = mutateJSON(s, b.data)
			what = b.enc + ": " + what
			t.Fault("json_node_mutation")
		case 2:
			b, ok := store(t, famBSON)
			if !ok {
				return
			}
			fam = famBSON
			data, what = mutateBSON(s, b.data)
			what = b.enc + ": " + what
			t.Fault("bson_node_mutation")
		case 3:
			fam = []int{famWKB, famWKT, famJSON}[s.Intn(3, "nfam")]
			b, ok := store(t, fam)
			if !ok || (fam == famWKB && b.enc[0] != 'e') || (fam == famJSON && b.enc != "geometry.json") {
				return
			}
			data, what = nest(s, fam, b.data)
			what = b.enc + " " + what
			t.Fault("nesting")
		default:
			tile, _ := hostileTile(s)
			data, what = hostileGzip(s, tile)
			t.Fault("hostile_gzip")
		}
		if data == nil {
			return
		}
		n++
		c.input = fmt.Sprintf("%s -> %s", what, hx(data))
		if t.Keep {
			t.Note("case: %s", c.input)
		}
		t.State(fmt.Sprintf("hostile/%s/%d", famNames[fam], len(data)/64))
		c.decode(fam, data, simio.ReaderFaults{})
	})
	t.ProbeN("decodes", c.decodes)
	if n > 0 {
		t.Op()
	}
}
