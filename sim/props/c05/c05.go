// Package c05: decoders survive whatever comes back from storage or a stream.
package c05

import (
	"bytes"
	"encoding/binary"
	"encoding/hex"
	"encoding/json"
	"fmt"
	"regexp"
	"runtime"
	"runtime/metrics"
	"sort"
	"strings"
	"sync"
	"time"

	"github.com/paulmach/orb"
	"github.com/paulmach/orb/encoding/ewkb"
	"github.com/paulmach/orb/encoding/mvt"
	"github.com/paulmach/orb/encoding/wkb"
	"github.com/paulmach/orb/encoding/wkt"
	"github.com/paulmach/orb/geojson"
	"go.mongodb.org/mongo-driver/bson/bsontype"
	"go.mongodb.org/mongo-driver/x/bsonx/bsoncore"

	"verif/sim/core"
	"verif/sim/gen"
	"verif/sim/props"
	"verif/sim/simio"
	m "verif/sim/wkbmodel"
)

const (
	spTiles = iota + 1
	spWKBHeader
	spWKTTokens
	spJSONTokens
	spScanText
)

func init() {
	props.Register(&props.Property{
		ID:    "C05",
		Level: "fault_enumeration",
		Rule: "write-fault-read: real encoders store an encoding of a generated value (WKB/EWKB in both byte orders, hex, \\x-hex, SRID-prefixed; WKT; GeoJSON geometry/feature/collection as JSON and BSON; " +
			"plain and gzipped tiles); engine 'enum' applies EVERY single fault of one drawn kind to that blob (every truncation point; every single-bit flip for blobs <= 256 B; every boundary word at every offset in both byte orders; " +
			"every byte_set value at every offset) and reads each damaged blob back through every decoder of its family; engine 'stack' applies 1-3 stacked sampled faults of all kinds (plus range zero/dup/drop, splices from another blob, " +
			"garbage sectors, WKT token faults, misdirected reads, stream faults on top); engine 'hostile' feeds well-framed but semantically hostile inputs (tiles built from the wire structs with nonsense command streams / tag indices / value messages, JSON and BSON documents with one node replaced, removed or renamed, deep nesting, gzip bombs and truncated gzip); engine 'small' samples the small finite spaces the property names. " +
			"A third of the runs keep their scanners and JSON/BSON receivers for the whole run (every damaged blob goes through the same objects) instead of fresh ones per input. A case is one run (value x encoding x fault kind); distinct = distinct event-log digest; non-trivial = at least one storage fault was applied and decoded.",
		StateDef: "distinct (family, encoding, fault kind, value shape) tuples; plus measured coverage of the small spaces (see small_spaces)",
		Engines: []props.Engine{
			{Name: "enum", Variant: "plain", Run: RunEnum, QuickRuns: 12000, Share: 0.4, MinThorough: 60000, RunTimeout: 30 * time.Second},
			{Name: "stack", Variant: "plain", Run: RunStack, QuickRuns: 40000, Share: 0.25, MinThorough: 200000, RunTimeout: 30 * time.Second},
			{Name: "hostile", Variant: "plain", Run: RunHostile, QuickRuns: 16000, Share: 0.2, MinThorough: 200000, RunTimeout: 30 * time.Second},
			{Name: "small", Variant: "plain", Run: RunSmall, QuickRuns: 60000, Share: 0.15, MinThorough: 400000, RunTimeout: 30 * time.Second},
		},
		Real: []string{"encoding/wkb", "encoding/ewkb", "encoding/internal/wkbcommon", "encoding/wkt", "geojson (JSON and BSON)", "encoding/mvt", "encoding/json", "go.mongodb.org/mongo-driver/bson", "compress/gzip", "paulmach/protoscan"},
		Stub: []string{"storage (simio fault catalogue applied to stored blobs)", "faulty io.Reader under the stream decoders"},
		Assumptions: []string{
			"which error a decoder returns is never checked; a decoder may accept damaged bytes as some other valid value",
			"allocation is measured with runtime/metrics /gc/heap/allocs:bytes (exact for large objects, lagging by at most one span per size class for small ones); bound 512*len + 8 MiB (gzip path: 8192*len + 8 MiB - the format expands up to 1032:1 and ReadAll's amortised growth allocates a multiple of the result)",
			"hangs are caught by the worker's wall-clock watchdog (30 s for runs that take well under a second) and attributed through the journal and the watchdog's goroutine dump",
		},
		Spaces: []props.Space{{}, {Name: "tile blobs of 0-2 bytes", Total: 65793}, {Name: "WKB header tuples (order byte x type word x count x srid flag x truncation)", Total: wkbHeaderTotal()}, {Name: "WKT sentences of <= 5 tokens over a 16-token alphabet", Total: 1118481},
			{Name: "JSON sentences of <= 4 tokens over a 16-token alphabet", Total: 69905},
			{Name: "scanner inputs of 5-6 bytes over a 12-byte framing alphabet", Total: 12*12*12*12*12 + 12*12*12*12*12*12}},
		NonTrivial: func(o *core.Outcome) bool {
			for _, v := range o.Faults {
				if v > 0 {
					return true
				}
			}
			return false
		},
	})
}

// ---------------------------------------------------------------- measuring

var allocSample = []metrics.Sample{{Name: "/gc/heap/allocs:bytes"}}

func allocs() uint64 {
	metrics.Read(allocSample)
	return allocSample[0].Value.Uint64()
}

type ctx struct {
	t       *core.T
	input   string // description of the current damaged blob
	decodes int64
	gz      bool
	// reuse: scanners and JSON/BSON receivers live as long as the run and see every
	// input in turn (rows scanned in a loop into one scanner, documents decoded into
	// one value), instead of a fresh one per input
	reuse bool
	kept  map[string]interface{}
}

func newCtx(t *core.T) *ctx {
	c := &ctx{t: t, reuse: t.Src.Chance(1, 3, "reuse-receivers")}
	if c.reuse {
		t.Probe("receivers_reused_across_inputs")
	}
	return c
}

// recv returns the receiver for an entry point: a fresh one, or the run's own.
func (c *ctx) recv(name string, mk func() interface{}) interface{} {
	if !c.reuse {
		return mk()
	}
	if c.kept == nil {
		c.kept = map[string]interface{}{}
	}
	v, ok := c.kept[name]
	if !ok {
		v = mk()
		c.kept[name] = v
	}
	return v
}

// call runs one decoder entry point under the no-panic and memory oracles.
// Allocation is screened with runtime/metrics (cheap; exact for large
// objects, but a GC cycle can flush earlier small allocations into the
// reading) and, when the screen trips, measured again exactly with
// runtime.ReadMemStats around a repetition of the same call.
func (c *ctx) call(api string, n int, f func()) {
	a0 := allocs()
	pi := core.Catch(f)
	a1 := allocs()
	c.decodes++
	if pi != nil {
		c.t.Violate("no-panic", api, pi.ClassDetail(), "%s panicked: %s\n  input: %s\n  at %s (orb frame %s %s)\n%s", api, pi.Value, c.input, pi.TopFile, pi.OrbFunc, pi.OrbFile, trimStack(pi.Stack))
		return
	}
	bound := uint64(512*n + 8<<20)
	if c.gz {
		bound = uint64(8192*n + 8<<20) // gzip expands up to 1032:1 and ioutil.ReadAll's amortised growth allocates a multiple of that
	}
	if a1-a0 > bound {
		c.t.Probe("memory_screen_tripped")
		var m0, m1 runtime.MemStats
		d0, st0 := c.t.Out.Digest, c.t.Out.Steps
		runtime.ReadMemStats(&m0)
		core.Catch(f)
		runtime.ReadMemStats(&m1)
		c.t.Out.Digest, c.t.Out.Steps = d0, st0 // the repetition is not part of the run's history
		if got := m1.TotalAlloc - m0.TotalAlloc; got > bound {
			c.t.Violate("memory", api, "", "%s allocated %d bytes for a %d-byte input (bound %d)\n  input: %s", api, got, n, bound, c.input)
		}
	}
}

func trimStack(s string) string {
	ls := strings.Split(s, "\n")
	var out []string
	for _, l := range ls {
		if strings.HasPrefix(l, "verif/sim/") || strings.HasPrefix(l, "main.") {
			break
		}
		out = append(out, l)
	}
	if len(out) > 12 {
		out = out[:12]
	}
	return strings.Join(out, "\n")
}

func cp(b []byte) []byte { return append([]byte{}, b...) }

func hx(b []byte) string {
	if len(b) > 160 {
		return fmt.Sprintf("%x…(%d bytes)", b[:160], len(b))
	}
	return fmt.Sprintf("%x", b)
}

// ---------------------------------------------------------------- decoder families

const (
	famWKB = iota
	famWKT
	famJSON
	famBSON
	famMVT
	numFam
)

var famNames = [...]string{"wkb", "wkt", "geojson", "bson", "mvt"}

// mix folds a decode outcome into the digest cheaply.
func (c *ctx) mix(tag uint64, ok bool) {
	v := tag << 1
	if ok {
		v |= 1
	}
	c.t.Out.Digest = core.Mix(c.t.Out.Digest, v)
	c.t.Out.Steps++
}

// decodeWKB feeds data to every WKB/EWKB decoder. rf: benign stream faults for the stream decoders.
func (c *ctx) decodeWKB(data []byte, rf simio.ReaderFaults) {
	n := len(data)
	t := c.t
	// one-shot decoders + restabilisation
	c.call("wkb.Unmarshal", n, func() {
		g, err := wkb.Unmarshal(data)
		c.mix(1, err == nil)
		if err == nil {
			c.restabilise("wkb.Unmarshal", g, 0)
		}
	})
	c.call("ewkb.Unmarshal", n, func() {
		g, srid, err := ewkb.Unmarshal(data)
		c.mix(2, err == nil)
		if err == nil {
			c.restabilise("ewkb.Unmarshal", g, srid)
		}
	})
	// stream decoders over a (benignly) faulty reader: storage and stream faults compose
	c.call("wkb.Decoder.Decode", n, func() {
		r := simio.NewReader(t, data, rf)
		d := wkb.NewDecoder(r)
		for i := 0; i < 8; i++ {
			_, err := d.Decode()
			c.mix(3, err == nil)
			if err != nil {
				break
			}
		}
		if r.Reads > n+r.Stutters+12 {
			t.Violate("liveness", "wkb.Decoder.Decode", "", "stream decoder used %d Reads for %d bytes (%d empty reads)\n  input: %s", r.Reads, n, r.Stutters, c.input)
		}
	})
	c.call("ewkb.Decoder.Decode", n, func() {
		r := simio.NewReader(t, data, rf)
		d := ewkb.NewDecoder(r)
		for i := 0; i < 8; i++ {
			_, _, err := d.Decode()
			c.mix(4, err == nil)
			if err != nil {
				break
			}
		}
		if r.Reads > n+r.Stutters+12 {
			t.Violate("liveness", "ewkb.Decoder.Decode", "", "stream decoder used %d Reads for %d bytes (%d empty reads)\n  input: %s", r.Reads, n, r.Stutters, c.input)
		}
	})
	// scanners: 3 kinds x 10 destinations (Scan hex-decodes in place: each gets its own copy)
	for d := 0; d < m.NumDest; d++ {
		d := d
		c.call("wkb.Scanner.Scan", n, func() {
			sc := c.recv(fmt.Sprint("wkb.Scanner/", d), func() interface{} { return wkb.Scanner(m.NewDest(d)) }).(*wkb.GeometryScanner)
			err := sc.Scan(cp(data))
			c.mix(uint64(10+d), err == nil)
		})
		c.call("ewkb.Scanner.Scan", n, func() {
			sc := c.recv(fmt.Sprint("ewkb.Scanner/", d), func() interface{} { return ewkb.Scanner(m.NewDest(d)) }).(*ewkb.GeometryScanner)
			err := sc.Scan(cp(data))
			c.mix(uint64(20+d), err == nil)
		})
		c.call("ewkb.ScannerPrefixSRID.Scan", n, func() {
			sc := c.recv(fmt.Sprint("ewkb.ScannerPrefixSRID/", d), func() interface{} { return ewkb.ScannerPrefixSRID(m.NewDest(d)) }).(*ewkb.GeometryScanner)
			err := sc.Scan(cp(data))
			c.mix(uint64(30+d), err == nil)
		})
	}
}

// restabilise: a value returned for damaged WKB must survive re-encoding.
func (c *ctx) restabilise(api string, g orb.Geometry, srid int) {
	if g == nil {
		return
	}
	enc, err := ewkb.Marshal(g, srid)
	if err != nil || enc == nil {
		c.t.Violate("restabilise", api, "", "%s returned %s for damaged input but it cannot be re-encoded (%v)\n  input: %s", api, gen.Describe(g), err, c.input)
		return
	}
	g2, srid2, err := ewkb.Unmarshal(enc)
	if err != nil || !m.Equal(g, g2) || uint32(srid2) != uint32(srid) {
		c.t.Violate("restabilise", api, "", "%s returned %s srid %d; re-encoding and decoding gives %s srid %d (err %v)\n  input: %s", api, gen.Describe(g), srid, gen.Describe(g2), srid2, err, c.input)
	}
}

func (c *ctx) decodeWKT(data []byte) {
	s := string(data)
	n := len(s)
	c.call("wkt.Unmarshal", n, func() { _, err := wkt.Unmarshal(s); c.mix(40, err == nil) })
	c.call("wkt.UnmarshalPoint", n, func() { _, err := wkt.UnmarshalPoint(s); c.mix(41, err == nil) })
	c.call("wkt.UnmarshalMultiPoint", n, func() { _, err := wkt.UnmarshalMultiPoint(s); c.mix(42, err == nil) })
	c.call("wkt.UnmarshalLineString", n, func() { _, err := wkt.UnmarshalLineString(s); c.mix(43, err == nil) })
	c.call("wkt.UnmarshalMultiLineString", n, func() { _, err := wkt.UnmarshalMultiLineString(s); c.mix(44, err == nil) })
	c.call("wkt.UnmarshalPolygon", n, func() { _, err := wkt.UnmarshalPolygon(s); c.mix(45, err == nil) })
	c.call("wkt.UnmarshalMultiPolygon", n, func() { _, err := wkt.UnmarshalMultiPolygon(s); c.mix(46, err == nil) })
	c.call("wkt.UnmarshalCollection", n, func() { _, err := wkt.UnmarshalCollection(s); c.mix(47, err == nil) })
}

func (c *ctx) decodeJSON(data []byte) {
	n := len(data)
	c.call("geojson.UnmarshalGeometry", n, func() { _, err := geojson.UnmarshalGeometry(data); c.mix(50, err == nil) })
	c.call("geojson.UnmarshalFeature", n, func() { _, err := geojson.UnmarshalFeature(data); c.mix(51, err == nil) })
	c.call("geojson.UnmarshalFeatureCollection", n, func() { _, err := geojson.UnmarshalFeatureCollection(data); c.mix(52, err == nil) })
	c.call("json.Unmarshal(*geojson.Geometry)", n, func() {
		err := json.Unmarshal(data, c.recv("geojson.Geometry", func() interface{} { return &geojson.Geometry{} }).(*geojson.Geometry))
		c.mix(53, err == nil)
	})
	c.call("json.Unmarshal(*geojson.Feature)", n, func() {
		err := json.Unmarshal(data, c.recv("geojson.Feature", func() interface{} { return &geojson.Feature{} }).(*geojson.Feature))
		c.mix(54, err == nil)
	})
	c.call("json.Unmarshal(*geojson.FeatureCollection)", n, func() {
		err := json.Unmarshal(data, c.recv("geojson.FeatureCollection", func() interface{} { return &geojson.FeatureCollection{} }).(*geojson.FeatureCollection))
		c.mix(55, err == nil)
	})
	c.call("geojson.Point.UnmarshalJSON", n, func() {
		err := c.recv("geojson.Point", func() interface{} { return &geojson.Point{} }).(*geojson.Point).UnmarshalJSON(data)
		c.mix(56, err == nil)
	})
	c.call("geojson.MultiPoint.UnmarshalJSON", n, func() {
		err := c.recv("geojson.MultiPoint", func() interface{} { return &geojson.MultiPoint{} }).(*geojson.MultiPoint).UnmarshalJSON(data)
		c.mix(57, err == nil)
	})
	c.call("geojson.LineString.UnmarshalJSON", n, func() {
		err := c.recv("geojson.LineString", func() interface{} { return &geojson.LineString{} }).(*geojson.LineString).UnmarshalJSON(data)
		c.mix(58, err == nil)
	})
	c.call("geojson.MultiLineString.UnmarshalJSON", n, func() {
		err := c.recv("geojson.MultiLineString", func() interface{} { return &geojson.MultiLineString{} }).(*geojson.MultiLineString).UnmarshalJSON(data)
		c.mix(59, err == nil)
	})
	c.call("geojson.Polygon.UnmarshalJSON", n, func() {
		err := c.recv("geojson.Polygon", func() interface{} { return &geojson.Polygon{} }).(*geojson.Polygon).UnmarshalJSON(data)
		c.mix(60, err == nil)
	})
	c.call("geojson.MultiPolygon.UnmarshalJSON", n, func() {
		err := c.recv("geojson.MultiPolygon", func() interface{} { return &geojson.MultiPolygon{} }).(*geojson.MultiPolygon).UnmarshalJSON(data)
		c.mix(61, err == nil)
	})
	c.call("geojson.BBox(json)", n, func() { var b geojson.BBox; err := json.Unmarshal(data, &b); c.mix(62, err == nil) })
}

func (c *ctx) decodeBSON(data []byte) {
	n := len(data)
	// always through orb's own methods, so every reported panic has an orb frame under it
	c.call("geojson.Geometry.UnmarshalBSON", n, func() {
		err := c.recv("geojson.Geometry", func() interface{} { return &geojson.Geometry{} }).(*geojson.Geometry).UnmarshalBSON(data)
		c.mix(70, err == nil)
	})
	c.call("geojson.Feature.UnmarshalBSON", n, func() {
		err := c.recv("geojson.Feature", func() interface{} { return &geojson.Feature{} }).(*geojson.Feature).UnmarshalBSON(data)
		c.mix(71, err == nil)
	})
	c.call("geojson.FeatureCollection.UnmarshalBSON", n, func() {
		err := c.recv("geojson.FeatureCollection", func() interface{} { return &geojson.FeatureCollection{} }).(*geojson.FeatureCollection).UnmarshalBSON(data)
		c.mix(72, err == nil)
	})
	c.call("geojson.Point.UnmarshalBSON", n, func() {
		err := c.recv("geojson.Point", func() interface{} { return &geojson.Point{} }).(*geojson.Point).UnmarshalBSON(data)
		c.mix(73, err == nil)
	})
	c.call("geojson.MultiPoint.UnmarshalBSON", n, func() {
		err := c.recv("geojson.MultiPoint", func() interface{} { return &geojson.MultiPoint{} }).(*geojson.MultiPoint).UnmarshalBSON(data)
		c.mix(74, err == nil)
	})
	c.call("geojson.LineString.UnmarshalBSON", n, func() {
		err := c.recv("geojson.LineString", func() interface{} { return &geojson.LineString{} }).(*geojson.LineString).UnmarshalBSON(data)
		c.mix(75, err == nil)
	})
	c.call("geojson.MultiLineString.UnmarshalBSON", n, func() {
		err := c.recv("geojson.MultiLineString", func() interface{} { return &geojson.MultiLineString{} }).(*geojson.MultiLineString).UnmarshalBSON(data)
		c.mix(76, err == nil)
	})
	c.call("geojson.Polygon.UnmarshalBSON", n, func() {
		err := c.recv("geojson.Polygon", func() interface{} { return &geojson.Polygon{} }).(*geojson.Polygon).UnmarshalBSON(data)
		c.mix(77, err == nil)
	})
	c.call("geojson.MultiPolygon.UnmarshalBSON", n, func() {
		err := c.recv("geojson.MultiPolygon", func() interface{} { return &geojson.MultiPolygon{} }).(*geojson.MultiPolygon).UnmarshalBSON(data)
		c.mix(78, err == nil)
	})
}

func (c *ctx) decodeMVT(data []byte) {
	n := len(data)
	c.call("mvt.Unmarshal", n, func() { _, err := mvt.Unmarshal(data); c.mix(80, err == nil) })
	c.gz = true
	c.call("mvt.UnmarshalGzipped", n, func() { _, err := mvt.UnmarshalGzipped(data); c.mix(81, err == nil) })
	c.gz = false
}

func (c *ctx) decode(fam int, data []byte, rf simio.ReaderFaults) {
	switch fam {
	case famWKB:
		c.decodeWKB(data, rf)
	case famWKT:
		c.decodeWKT(data)
	case famJSON:
		c.decodeJSON(data)
	case famBSON:
		c.decodeBSON(data)
	default:
		c.decodeMVT(data)
	}
}

// ---------------------------------------------------------------- stored blobs

type blob struct {
	fam  int
	enc  string
	data []byte
	desc string
	sig  string
}

func smallGeom(s *core.Source, mode gen.CoordMode) orb.Geometry {
	o := gen.Opts{Mode: mode, MaxPoints: 4, MaxParts: 3, MaxDepth: 2, TopNil: false, RingBound: true}
	return gen.Geometry(s, o)
}

func feature(s *core.Source) *geojson.Feature {
	f := geojson.NewFeature(smallGeom(s, gen.SmallInts))
	switch s.Intn(3, "fid") {
	case 1:
		f.ID = "id-" + fmt.Sprint(s.Intn(10, "n"))
	case 2:
		f.ID = float64(s.Intn(100, "n"))
	}
	if s.Bool("bbox") {
		f.BBox = geojson.NewBBox(f.Geometry.Bound())
	}
	s.Repeat(0, 1, 3, "prop", func(int) {
		var v interface{}
		switch s.Intn(5, "pv") {
		case 0:
			v = "s"
		case 1:
			v = float64(s.Intn(9, "n"))
		case 2:
			v = true
		case 3:
			v = nil
		default:
			v = []interface{}{1.0, map[string]interface{}{"k": "v"}}
		}
		f.Properties[[]string{"a", "b", "name"}[s.Intn(3, "pk")]] = v
	})
	return f
}

// store encodes a generated value with the real encoder of a drawn family.
// ok=false when the encoder itself failed on the generated value (not C05's business).
func store(t *core.T, fam int) (b blob, ok bool) {
	s := t.Src
	b.fam = fam
	var err error
	pi := core.Catch(func() {
		switch fam {
		case famWKB:
			g := smallGeom(s, gen.CoordMode(s.Intn(3, "cmode")))
			order := []binary.ByteOrder{binary.LittleEndian, binary.BigEndian}[s.Intn(2, "order")]
			srid := 0
			if s.Bool("srid") {
				srid = []int{4326, 1, 0x20000000, 1<<31 - 1}[s.Intn(4, "sridv")]
			}
			b.data, err = ewkb.Marshal(g, srid, order)
			if s.Chance(1, 6, "long") {
				// a run of 16-40 points followed by shorter pieces, written by the harness's own (E)WKB writer
				// (what is stored does not depend on orb's encoder; what a decoder returns for it is re-encoded by orb's)
				n := []int{16, 17, 24, 40}[s.Intn(4, "run")]
				pts := func(n int) []orb.Point {
					ps := make([]orb.Point, n)
					for i := range ps {
						ps[i] = orb.Point{float64(i), float64(s.Range(0, 16, "ly")) - 8}
					}
					return ps
				}
				switch s.Intn(4, "longkind") {
				case 0:
					g = orb.Collection{orb.LineString(pts(n)), orb.Point{1, 2}, orb.LineString(pts(3))}
				case 1:
					shell := pts(n)
					g = orb.Polygon{orb.Ring(append(shell, shell[0])), orb.Ring{{1, 1}, {2, 1}, {2, 2}, {1, 1}}}
				case 2:
					g = orb.MultiLineString{orb.LineString(pts(n)), orb.LineString(pts(2)), orb.LineString(pts(n + 1))}
				default:
					g = orb.MultiPolygon{{orb.Ring(pts(4))}, {orb.Ring(pts(n)), orb.Ring(pts(5))}}
				}
				le := order == binary.LittleEndian
				b.data, err = m.Encode(g, srid, func() bool { return le }), nil
			} else if norm, ok := m.Normalise(g); ok && s.Chance(1, 5, "foreign") {
				// the same value as another producer may have written it: every member in its own byte order
				b.data = m.Encode(norm, srid, func() bool { return s.Bool("le") })
			}
			b.desc = gen.Describe(g)
			switch s.Pick([]int{5, 1, 1, 1}, "framing") {
			case 0:
				b.enc = fmt.Sprintf("ewkb(%v,srid=%d)", order, srid)
			case 1:
				b.data = []byte(hex.EncodeToString(b.data))
				b.enc = "hex"
			case 2:
				b.data = append([]byte(`\x`), hex.EncodeToString(b.data)...)
				b.enc = "\\x-hex"
			default:
				p := make([]byte, 4)
				binary.LittleEndian.PutUint32(p, 4326)
				b.data = append(p, b.data...)
				b.enc = "srid-prefix"
			}
			b.sig = fmt.Sprintf("%T", g)
		case famWKT:
			g := smallGeom(s, gen.CoordMode(1+s.Intn(2, "cmode")))
			b.data = wkt.Marshal(g)
			b.enc, b.desc, b.sig = "wkt", gen.Describe(g), fmt.Sprintf("%T", g)
		case famJSON, famBSON:
			kind := s.Intn(3, "doc")
			var v interface {
				MarshalJSON() ([]byte, error)
				MarshalBSON() ([]byte, error)
			}
			switch kind {
			case 0:
				g := smallGeom(s, gen.SmallInts)
				v = geojson.NewGeometry(g)
				b.desc = gen.Describe(g)
			case 1:
				f := feature(s)
				v = f
				b.desc = "feature " + gen.Describe(f.Geometry)
			default:
				fc := geojson.NewFeatureCollection()
				s.Repeat(0, 1, 3, "feat", func(int) { fc.Append(feature(s)) })
				if s.Bool("extra") {
					fc.ExtraMembers = geojson.Properties{"crs": "x", "n": 1.0}
				}
				v = fc
				b.desc = fmt.Sprintf("collection of %d features", len(fc.Features))
			}
			if fam == famJSON {
				b.data, err = v.MarshalJSON()
				b.enc = []string{"geometry.json", "feature.json", "collection.json"}[kind]
			} else {
				b.data, err = v.MarshalBSON()
				// bson.Marshal writes Go maps in Go's map order: put the stored
				// document into canonical key order so that the blob is a
				// function of the choice stream only
				b.data = canonBSON(b.data)
				b.enc = []string{"geometry.bson", "feature.bson", "collection.bson"}[kind]
			}
			b.sig = b.enc
		default:
			ls := gen.Layers(s, gen.LayerOpts{NilGeoms: true})
			if s.Chance(1, 3, "gzip") {
				b.data, err = mvt.MarshalGzipped(ls)
				b.enc = "tile.gz"
			} else {
				b.data, err = mvt.Marshal(ls)
				b.enc = "tile"
			}
			b.desc = gen.DescribeLayers(ls)
			b.sig = fmt.Sprintf("%s/%d", b.enc, len(ls))
		}
	})
	if pi != nil || err != nil {
		t.Probe("encoder_failed_on_generated_value")
		return b, false
	}
	return b, true
}

// canonBSON sorts the elements of every (embedded) document by key.
func canonBSON(raw []byte) []byte {
	doc := bsoncore.Document(raw)
	if doc.Validate() != nil {
		return raw
	}
	return canonDoc(doc)
}

func canonDoc(doc bsoncore.Document) []byte {
	elems, err := doc.Elements()
	if err != nil {
		return doc
	}
	sort.SliceStable(elems, func(i, j int) bool { return elems[i].Key() < elems[j].Key() })
	idx, out := bsoncore.AppendDocumentStart(nil)
	for _, e := range elems {
		out = appendCanon(out, e)
	}
	out, _ = bsoncore.AppendDocumentEnd(out, idx)
	return out
}

func appendCanon(out []byte, e bsoncore.Element) []byte {
	v := e.Value()
	switch v.Type {
	case bsontype.EmbeddedDocument:
		return bsoncore.AppendDocumentElement(out, e.Key(), canonDoc(v.Document()))
	case bsontype.Array:
		vals, err := bsoncore.Document(v.Array()).Elements()
		if err != nil {
			return append(out, e...)
		}
		idx, arr := bsoncore.AppendArrayStart(nil)
		for _, x := range vals {
			arr = appendCanon(arr, x)
		}
		arr, _ = bsoncore.AppendArrayEnd(arr, idx)
		return bsoncore.AppendArrayElement(out, e.Key(), arr)
	}
	return append(out, e...)
}

var warm sync.Once

// warmUp decodes one valid blob per family so that one-time initialisation of
// encoding/json, bson registries and regexps is not billed to an input.
func warmUp() {
	warm.Do(func() {
		t := core.NewT("C05", "warmup", core.NewRandomSource(1), false)
		c := &ctx{t: t}
		for fam := 0; fam < numFam; fam++ {
			if b, ok := store(t, fam); ok {
				c.decode(fam, b.data, simio.ReaderFaults{})
			}
		}
	})
}

func drawFamily(s *core.Source) int { return s.Pick([]int{4, 2, 2, 2, 3}, "family") }

// RunEnum: every single fault of one kind on one stored blob.
func RunEnum(t *core.T) {
	warmUp()
	s := t.Src
	fam := drawFamily(s)
	b, ok := store(t, fam)
	if !ok {
		return
	}
	kind := simio.EnumKinds[s.Intn(len(simio.EnumKinds), "faultkind")]
	rf := simio.ReaderFaults{}
	if s.Bool("stream-faults") {
		rf = simio.DrawReaderFaults(s)
	}
	t.Logf("stored %s %s (%d bytes): %s = %s; enumerating every %s fault; reader %+v", famNames[fam], b.enc, len(b.data), b.desc, hx(b.data), kind, rf)
	t.State(fmt.Sprintf("enum/%s/%s/%s/%s", famNames[fam], b.enc, kind, b.sig))
	c := newCtx(t)
	// control: the undamaged blob
	c.input = "undamaged " + hx(b.data)
	c.decode(fam, b.data, rf)
	var scratch []byte
	n, exhaustive := simio.Enumerate(kind, len(b.data), s, func(f simio.Fault) bool {
		scratch = f.Apply(scratch, b.data)
		if t.Keep {
			c.input = fmt.Sprintf("%s applied to %s %s -> %s", f, b.enc, hx(b.data), hx(scratch))
		} else {
			c.input = f.String()
		}
		before := len(t.Out.Violations)
		c.decode(fam, scratch, rf)
		if len(t.Out.Violations) > before && !t.Keep {
			// re-describe with the full input for the report
			t.Out.Violations[len(t.Out.Violations)-1].Msg += fmt.Sprintf("\n  damaged blob: %s (fault %s on %s %s of %s)", hx(scratch), f, b.enc, hx(b.data), b.desc)
		}
		t.Out.Faults[kind]++
		return t.Unlisted() < 4
	})
	t.ProbeN("decodes", c.decodes)
	if exhaustive {
		t.Probe("blobs_with_every_" + kind + "_enumerated")
	} else {
		t.Probe("blobs_with_sampled_" + kind)
	}
	t.Logf("%d %s faults applied, %d decodes", n, kind, c.decodes)
	t.Op()
}

// token faults also insert whitespace and control characters the small-space alphabets do not have
var wktFaultTokens = append(append([]string{}, wktTokens...), "\r", "\n", "\t", "\v", "\f", "\u00a0", "\u2028", "  ", "\r\n", "Z", "M", "ZM", "EMPTY,", ";")
var jsonFaultTokens = append(append([]string{}, jsonTokens...), "\r", "\n", "\t", "\ufeff", `"\u0000"`, "1e999", "-", `"bbox"`, `"features"`, `"properties"`, `"id"`)

var tokenRE = regexp.MustCompile(`[A-Za-z]+|[-+0-9.eE]+|\(|\)|,|\s+`)

// WKT token alphabet (16 tokens) for token faults and the small space.
var wktTokens = []string{"POINT", "LINESTRING", "POLYGON", "MULTIPOINT", "MULTIPOLYGON", "GEOMETRYCOLLECTION", "EMPTY", "(", ")", ",", " ", "1", "-2.5", "1e3", "((", "))"}

var jsonTokenRE = regexp.MustCompile(`"[^"]*"|[-+0-9.eE]+|null|true|false|[{}\[\],:]|\s+`)

// JSON token alphabet (16 tokens) for token faults and the small space.
var jsonTokens = []string{"null", "{", "}", "[", "]", ",", ":", " ", "0", `"type"`, `"Point"`, `"coordinates"`, `"geometry"`, `"Feature"`, `"geometries"`, `"GeometryCollection"`}

func tokenFault(s *core.Source, text string, re *regexp.Regexp, alphabet []string) (string, string) {
	toks := re.FindAllString(text, -1)
	if len(toks) == 0 {
		return alphabet[s.Intn(len(alphabet), "tok")], "tok_insert"
	}
	i := s.Intn(len(toks), "tpos")
	switch s.Intn(5, "tfault") {
	case 0:
		toks = append(toks[:i], toks[i+1:]...)
		return strings.Join(toks, ""), "tok_drop"
	case 1:
		toks = append(toks[:i+1], toks[i:]...)
		return strings.Join(toks, ""), "tok_dup"
	case 2:
		j := s.Intn(len(toks), "tpos2")
		toks[i], toks[j] = toks[j], toks[i]
		return strings.Join(toks, ""), "tok_swap"
	case 3:
		toks[i] = alphabet[s.Intn(len(alphabet), "tok")]
		return strings.Join(toks, ""), "tok_replace"
	default:
		tk := alphabet[s.Intn(len(alphabet), "tok")]
		toks = append(toks[:i], append([]string{tk}, toks[i:]...)...)
		return strings.Join(toks, ""), "tok_insert"
	}
}

// RunStack: 1-3 stacked sampled faults of every kind, many variants per blob.
func RunStack(t *core.T) {
	warmUp()
	s := t.Src
	fam := drawFamily(s)
	b, ok := store(t, fam)
	if !ok {
		return
	}
	other, ok2 := store(t, drawFamily(s))
	if !ok2 {
		other.data = nil
	}
	t.Logf("stored %s %s (%d bytes): %s = %s", famNames[fam], b.enc, len(b.data), b.desc, hx(b.data))
	c := newCtx(t)
	s.Repeat(1, 24, 48, "variant", func(int) {
		if t.Unlisted() >= 4 {
			return
		}
		data := cp(b.data)
		var descs []string
		nf := 1 + s.Pick([]int{3, 2, 1}, "nfaults")
		for i := 0; i < nf; i++ {
			if (fam == famWKT || fam == famJSON) && s.Chance(1, 2, "token") {
				re, alphabet := tokenRE, wktFaultTokens
				if fam == famJSON {
					re, alphabet = jsonTokenRE, jsonFaultTokens
				}
				txt, kind := tokenFault(s, string(data), re, alphabet)
				data = []byte(txt)
				descs = append(descs, kind)
				t.Fault(kind)
				continue
			}
			f := simio.DrawFault(s, len(data), other.data)
			data = f.Apply(nil, data)
			descs = append(descs, f.String())
			t.Fault(f.Kind)
		}
		target := fam
		if s.Chance(1, 16, "misdirected") {
			target = s.Intn(numFam, "target")
			if target != fam {
				t.Fault("misdirected_read")
				descs = append(descs, "read by the "+famNames[target]+" decoders")
			}
		}
		rf := simio.ReaderFaults{}
		if target == famWKB && s.Bool("stream-faults") {
			rf = simio.DrawReaderFaults(s)
		}
		c.input = fmt.Sprintf("%s of %s after %s -> %s", b.enc, b.desc, strings.Join(descs, " + "), hx(data))
		t.State(fmt.Sprintf("stack/%s/%s/%d/%s", famNames[fam], b.enc, nf, famNames[target]))
		if t.Keep {
			t.Note("variant: %s", c.input)
		}
		c.decode(target, data, rf)
	})
	t.ProbeN("decodes", c.decodes)
	t.Op()
}

// ---------------------------------------------------------------- small spaces

var hdrOrder = []byte{0, 1, 2, 0xff}
var hdrTypes = []uint32{0, 1, 2, 3, 4, 5, 6, 7, 8, 15, 0x20000001, 0x20000002, 0x20000003, 0x20000004, 0x20000005, 0x20000006, 0x20000007, 0x80000001, 0xffffffff}
var hdrCounts = []uint32{0, 1, 1 << 28, 1<<28 + 1, 1 << 31, 1<<32 - 1}

const hdrPayload = 40 // bytes of (valid-looking) payload after the count

func wkbHeaderTotal() int64 {
	// order byte x type word x count x {payload kind 0..2} x truncation point (0..full length)
	var total int64
	for _, ty := range hdrTypes {
		full := 1 + 4 + 4 + hdrPayload
		if ty&0x20000000 != 0 {
			full += 4
		}
		total += int64(len(hdrOrder)) * int64(len(hdrCounts)) * 3 * int64(full+1)
	}
	return total
}

func buildHeader(oi, ti, ci, pk, trunc int) []byte {
	var bo binary.ByteOrder = binary.LittleEndian
	if hdrOrder[oi] == 0 {
		bo = binary.BigEndian
	}
	b := []byte{hdrOrder[oi]}
	w := make([]byte, 4)
	bo.PutUint32(w, hdrTypes[ti])
	b = append(b, w...)
	if hdrTypes[ti]&0x20000000 != 0 {
		bo.PutUint32(w, 4326)
		b = append(b, w...)
	}
	bo.PutUint32(w, hdrCounts[ci])
	b = append(b, w...)
	// payload: zeros, a nested point header repeated, or 0xff
	for len(b) < cap40(hdrTypes[ti]) {
		switch pk {
		case 0:
			b = append(b, 0)
		case 1:
			if hdrOrder[oi] == 0 {
				b = append(b, 0, 0, 0, 0, 1) // big-endian point header
			} else {
				b = append(b, 1, 1, 0, 0, 0) // little-endian point header
			}
		default:
			b = append(b, 0xff)
		}
	}
	b = b[:cap40(hdrTypes[ti])]
	if trunc < len(b) {
		b = b[:trunc]
	}
	return b
}

func cap40(ty uint32) int {
	n := 1 + 4 + 4 + hdrPayload
	if ty&0x20000000 != 0 {
		n += 4
	}
	return n
}

// RunSmall samples the small finite spaces the property's quantifier names;
// how much of each was reached is measured (small_spaces in the evidence).
func RunSmall(t *core.T) {
	warmUp()
	s := t.Src
	c := newCtx(t)
	switch s.Intn(5, "space") {
	case 4:
		// what a driver might hand the scanners: short blobs over the bytes framing detection looks at
		alpha := []byte{'0', '1', '\\', 'x', '\n', '\r', ' ', 'a', 'F', 0x00, 0x01, 0xff}
		for i := 0; i < 32 && t.Unlisted() == 0; i++ {
			s.Begin("scantext")
			n := 5 + s.Intn(2, "len")
			data := make([]byte, n)
			sig := uint64(n)
			for j := range data {
				k := s.Intn(len(alpha), "ch")
				data[j] = alpha[k]
				sig = sig*13 + uint64(k) + 1
			}
			s.End()
			c.input = fmt.Sprintf("scanner input %q", data)
			t.StateIn(spScanText, sig)
			t.Fault("garbage_blob")
			c.decodeWKB(data, simio.ReaderFaults{})
		}
	case 3:
		for i := 0; i < 24 && t.Unlisted() == 0; i++ {
			s.Begin("json-sentence")
			n := s.Pick([]int{1, 2, 8, 32, 128}, "ntok")
			var sb strings.Builder
			sig := uint64(n)
			for j := 0; j < n; j++ {
				k := s.Intn(16, "tok")
				sig = sig*17 + uint64(k) + 1
				sb.WriteString(jsonTokens[k])
			}
			s.End()
			c.input = fmt.Sprintf("json sentence %q", sb.String())
			t.StateIn(spJSONTokens, sig)
			t.Fault("token_sentence")
			c.decodeJSON([]byte(sb.String()))
		}
	case 0:
		// every 0-2 byte tile: 1 + 256 + 65536 blobs
		for i := 0; i < 96 && t.Unlisted() == 0; i++ {
			s.Begin("tile")
			var data []byte
			switch s.Pick([]int{1, 8, 120}, "tlen") {
			case 1:
				data = []byte{byte(s.Intn(256, "b0"))}
			case 2:
				data = []byte{byte(s.Intn(256, "b0")), byte(s.Intn(256, "b1"))}
			}
			s.End()
			c.input = fmt.Sprintf("tile blob %x", data)
			t.StateIn(spTiles, core.HashString("t"+string(data)))
			t.Fault("garbage_blob")
			c.decodeMVT(data)
		}
	case 1:
		for i := 0; i < 24 && t.Unlisted() == 0; i++ {
			s.Begin("hdr")
			oi, ti, ci, pk := s.Intn(len(hdrOrder), "order"), s.Intn(len(hdrTypes), "type"), s.Intn(len(hdrCounts), "count"), s.Intn(3, "payload")
			trunc := s.Intn(cap40(hdrTypes[ti])+1, "trunc")
			s.End()
			data := buildHeader(oi, ti, ci, pk, trunc)
			c.input = fmt.Sprintf("wkb header order=%#x type=%#x count=%#x payload=%d truncated to %d: %x", hdrOrder[oi], hdrTypes[ti], hdrCounts[ci], pk, trunc, data)
			t.StateIn(spWKBHeader, uint64(oi)|uint64(ti)<<4|uint64(ci)<<12|uint64(pk)<<16|uint64(trunc)<<20)
			t.Fault("count_inflation")
			c.decodeWKB(data, simio.ReaderFaults{})
		}
	default:
		for i := 0; i < 48 && t.Unlisted() == 0; i++ {
			s.Begin("sentence")
			n := s.Pick([]int{1, 1, 2, 8, 32, 128}, "ntok")
			var sb strings.Builder
			sig := uint64(n)
			for j := 0; j < n; j++ {
				k := s.Intn(16, "tok")
				sig = sig*17 + uint64(k) + 1
				sb.WriteString(wktTokens[k])
			}
			s.End()
			c.input = fmt.Sprintf("wkt sentence %q", sb.String())
			t.StateIn(spWKTTokens, sig)
			t.Fault("token_sentence")
			c.decodeWKT([]byte(sb.String()))
		}
	}
	t.ProbeN("decodes", c.decodes)
	t.Op()
}

var _ = bytes.Equal
