// Package props is the registry of simulated checks.
package props

import (
	"sort"
	"time"

	"verif/sim/core"
)

// Engine is one way of exercising a property. Each engine has its own run
// index space: run i of an engine is a pure function of (VERIF_SEED, property,
// engine name, i).
type Engine struct {
	Name        string
	Variant     string // which binary runs it: "plain", "instr" or "race"
	Run         core.RunFunc
	QuickRuns   int           // runs in the quick tier
	Share       float64       // share of the thorough time budget
	MinThorough int           // minimum runs in the thorough tier
	RunTimeout  time.Duration // per-run wall watchdog (harness safety net, generous)
	Note        string
	Procs       int // GOMAXPROCS of each worker process (default 2)
	Workers     int // worker processes (default: all)
	// External engines are not choice-stream simulations (race detector run);
	// they are driven by ExternalRun instead of Run.
	External bool
}

// Property is the set of engines deciding one property.
type Property struct {
	ID          string
	Level       string // exploration | fault_enumeration
	Rule        string // how cases are generated and what makes one non-trivial / distinct
	StateDef    string // what "distinct_states" counts
	Engines     []Engine
	Real        []string
	Stub        []string
	Instr       []string
	Assumptions []string
	// Spaces names small finite input spaces whose coverage is measured
	// (index = sub-space number used with T.StateIn; index 0 unused).
	Spaces []Space
	// NonTrivial decides whether a run counts towards distinct_nontrivial.
	NonTrivial func(o *core.Outcome) bool
}

// Variant is the binary flavour this process is ("plain", "instr", "race");
// set at link time by lib/build.sh.
var Variant = "plain"

// Space is a finite input space whose coverage is reported as reached/total.
type Space struct {
	Name  string
	Total int64
}

var all = map[string]*Property{}

func Register(p *Property) { all[p.ID] = p }

func Get(id string) *Property { return all[id] }

func IDs() []string {
	var ids []string
	for k := range all {
		ids = append(ids, k)
	}
	sort.Strings(ids)
	return ids
}

func (p *Property) Engine(name string) *Engine {
	for i := range p.Engines {
		if p.Engines[i].Name == name {
			return &p.Engines[i]
		}
	}
	return nil
}

// DefaultNonTrivial: at least one fault fired, one context switch happened or
// three workload operations completed.
func DefaultNonTrivial(o *core.Outcome) bool {
	if o.Switches > 0 || o.Ops >= 3 {
		return true
	}
	for _, v := range o.Faults {
		if v > 0 {
			return true
		}
	}
	return false
}
