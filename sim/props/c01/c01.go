// Package c01: WKB/EWKB round trip through simulated streams and a stub database.
package c01

import (
	"bytes"
	"encoding/binary"
	"encoding/hex"
	"errors"
	"fmt"
	"io"
	"time"

	"github.com/paulmach/orb"
	"github.com/paulmach/orb/encoding/ewkb"
	"github.com/paulmach/orb/encoding/wkb"

	"verif/sim/core"
	"verif/sim/gen"
	"verif/sim/kernel"
	"verif/sim/props"
	"verif/sim/simdb"
	"verif/sim/simio"
	m "verif/sim/wkbmodel"
)

func init() {
	props.Register(&props.Property{
		ID:    "C01",
		Level: "exploration",
		Rule: "engine 'pipe': one producer task (one reused wkb/ewkb Encoder with generated reconfigurations, 0-8 messages) and one consumer task (one Decoder) " +
			"joined by a simulated bounded pipe; the scheduler interleaves them per Read/Write event; reads fragment, stutter ((0,nil)) and deliver EOF with data. " +
			"engine 'pipe-faults': the same plus injected write errors / disk-full (producer crashes, torn tail) and read errors, with the relaxed oracle. " +
			"engine 'paths': one generated geometry x byte order x SRID encoded by every encode path and decoded by the byte decoder, the stream decoder over a faulty reader " +
			"and the real database/sql over a stub driver (10 destinations x framings x 3 scanners, NULLs, wrong column types, row-buffer reuse); half of the runs also decode a foreign encoding of the value " +
			"(the harness's own writer, every member in its own drawn byte order) through all of these paths, and scan two rows into one reused scanner and destination keeping what the first row gave. " +
			"Distinct = distinct event-log digest; non-trivial = a fault fired, a context switch happened or >= 3 operations completed.",
		StateDef: "distinct (geometry kind-shape signature, byte order, srid class, encoder/decoder kinds, framing, destination, fault vector) tuples reached",
		Engines: []props.Engine{
			{Name: "pipe", Variant: "plain", Run: func(t *core.T) { runPipe(t, false) }, QuickRuns: 150000, Share: 0.3, MinThorough: 1000000, RunTimeout: 60 * time.Second},
			{Name: "pipe-faults", Variant: "plain", Run: func(t *core.T) { runPipe(t, true) }, QuickRuns: 150000, Share: 0.3, MinThorough: 1000000, RunTimeout: 60 * time.Second},
			{Name: "paths", Variant: "plain", Run: RunPaths, QuickRuns: 150000, Share: 0.4, MinThorough: 1000000, RunTimeout: 60 * time.Second},
		},
		Real: []string{"encoding/wkb", "encoding/ewkb", "encoding/internal/wkbcommon", "database/sql (standard library, real)"},
		Stub: []string{"pipe between producer and consumer (simio.Pipe)", "faulty io.Reader (simio.Reader)", "database/sql/driver implementation (simdb)"},
		Assumptions: []string{
			"members of multi geometries and collections are never nil (quantifier)",
			"for the deprecated MySQL fallback of wkb.Scanner the SRID's low byte is not 0, 1, '0' or '\\\\' (documented as 'works for most use cases')",
			"anything-to-its-bound uses orb's own Bound() of the original value as reference",
			"short writes with a nil error are not injected (they violate io.Writer)",
			"which error a failed stream yields is not checked, only that it is non-nil and no geometry is invented",
		},
		NonTrivial: props.DefaultNonTrivial,
	})
}

var orders = []binary.ByteOrder{binary.LittleEndian, binary.BigEndian}
var orderNames = []string{"LE", "BE"}

// drawSRID draws an SRID in [1, 2^32): the field is 32 bits wide and unsigned.
func drawSRID(s *core.Source) int {
	switch s.Pick([]int{3, 2, 2, 1, 2}, "sridkind") {
	case 0:
		return []int{4326, 3857, 1, 27700, 900913}[s.Intn(5, "common")]
	case 1:
		if s.Chance(1, 3, "high") {
			return 1<<31 + s.Intn(1<<31, "srid32") // the upper half of the 32-bit range
		}
		return 1 + s.Intn(1<<31-1, "srid31")
	case 2:
		return []int{1, 2, 255, 256, 65535, 65536, 1<<24 - 1, 1 << 24, 0x20000000, 0x20000001, 1<<31 - 1, 1 << 30,
			1 << 31, 1<<31 + 1, 3 << 30, 1<<32 - 2, 1<<32 - 1, 0xA0000000}[s.Intn(18, "boundary")]
	case 3:
		return 1 + s.Intn(70000, "small")
	default:
		// bytes that the scanner's framing detection looks for ('0','1','\\','x', 0, 1) in every position
		// (also the geometry type codes and the EWKB flag byte: an SRID prefix that looks like a header)
		pool := []uint32{0x01, 0x30, 0x31, 0x5c, 0x78, 0x02, 0x03, 0x04, 0x05, 0x06, 0x07, 0x20, 0x7f}
		var v uint32
		if s.Bool("sparse") {
			// one or two such bytes, the rest zero: 8192 = 00 20 00 00, 513 = 01 02 00 00, ...
			v = pool[s.Intn(13, "b")] << (8 * uint(s.Intn(4, "pos")))
			if s.Bool("two") {
				v |= pool[s.Intn(13, "b2")] << (8 * uint(s.Intn(4, "pos2")))
			}
			v &= 1<<31 - 1
		} else {
			full := append([]uint32{0}, pool...)
			v = full[s.Intn(14, "b0")] | full[s.Intn(14, "b1")]<<8 | full[s.Intn(14, "b2")]<<16 | full[s.Intn(13, "b3")]<<24
		}
		if v == 0 {
			v = 0x3030
		}
		return int(v)
	}
}

func shape(g orb.Geometry) string {
	switch x := g.(type) {
	case nil:
		return "nil"
	case orb.Collection:
		out := "C["
		for i, c := range x {
			if i > 3 {
				out += "+"
				break
			}
			out += shape(c)
		}
		return out + "]"
	case orb.MultiPoint:
		return fmt.Sprintf("MP%d", bucket(len(x)))
	case orb.LineString:
		return fmt.Sprintf("LS%d", bucket(len(x)))
	case orb.MultiLineString:
		return fmt.Sprintf("MLS%d", bucket(len(x)))
	case orb.Polygon:
		return fmt.Sprintf("PG%d", bucket(len(x)))
	case orb.MultiPolygon:
		return fmt.Sprintf("MPG%d", bucket(len(x)))
	case orb.Ring:
		return fmt.Sprintf("R%d", bucket(len(x)))
	case orb.Bound:
		return "B"
	case orb.Point:
		return "P"
	}
	return "?"
}

func bucket(n int) int {
	switch {
	case n <= 2:
		return n
	case n <= 5:
		return 3
	}
	return 4
}

func sridClass(srid int) string {
	switch {
	case srid == 0:
		return "none"
	case srid < 1<<16:
		return "16bit"
	case srid < 1<<24:
		return "24bit"
	}
	return "31bit"
}

// ---------------------------------------------------------------- pipe engines

type expected struct {
	g    orb.Geometry
	srid int
	desc string
}

type msg struct {
	g        orb.Geometry
	reconfig int // 0 none, 1 SetByteOrder, 2 SetSRID, 3 per-call srid, 4 new encoder after changing the package defaults
	order    int
	srid     int
}

// pipeline is one producer -> pipe -> consumer chain. A run has one or two of
// them in the same kernel: two Encoders / two Decoders working at the same
// time must not influence each other.
type pipeline struct {
	id              int
	useEWKB         bool
	decEWKB         bool
	msgs            []msg
	pipe            *simio.Pipe
	acked           []expected
	got             []expected
	finalErr        error
	producerCrashed bool
}

func runPipe(t *core.T, faults bool) {
	s := t.Src
	savedWO, savedEO, savedES := wkb.DefaultByteOrder, ewkb.DefaultByteOrder, ewkb.DefaultSRID
	defer func() { wkb.DefaultByteOrder, ewkb.DefaultByteOrder, ewkb.DefaultSRID = savedWO, savedEO, savedES }()

	opts := gen.DefaultOpts()
	opts.MaxPoints = 8
	opts.MaxDepth = 3
	np := 1 + s.Pick([]int{3, 1}, "pipelines")
	var pls []*pipeline
	type cfg struct {
		capacity int
		pf       simio.PipeFaults
	}
	var cfgs []cfg
	totalWrites := 0
	for i := 0; i < np; i++ {
		s.Begin("pipeline")
		pl := &pipeline{id: i, useEWKB: s.Bool("ewkb-encoder"), decEWKB: s.Bool("ewkb-decoder")}
		c := cfg{capacity: []int{4096, 64, 16, 3, 1}[s.Pick([]int{3, 2, 2, 1, 1}, "cap")]}
		c.pf.R = simio.DrawReaderFaults(s)
		s.Repeat(0, 3, 8, "msg", func(int) {
			var x msg
			x.reconfig = s.Pick([]int{4, 2, 2, 2, 1}, "reconfig")
			x.order = s.Intn(2, "order")
			if s.Chance(1, 5, "srid0") {
				x.srid = 0
			} else {
				x.srid = drawSRID(s)
			}
			x.g = gen.Geometry(s, opts)
			if s.Chance(1, 300, "bigmsg") {
				x.g = gen.Big(s) // one very large message in the middle of a stream of small ones
			}
			if n := len(pl.msgs); n > 0 && s.Chance(1, 10, "samemsg") {
				x.g = pl.msgs[n-1].g // the very same value twice in a row
			}
			pl.msgs = append(pl.msgs, x)
		})
		w := 0
		for _, x := range pl.msgs {
			w += 3 + countPoints(x.g)
		}
		totalWrites += w
		if faults {
			switch s.Pick([]int{2, 3, 2, 2}, "faultkind") {
			case 1:
				c.pf.WriteErrAt = 1 + s.Intn(w+2, "write-err-at")
			case 2:
				c.pf.DiskFull = s.Intn(w*16+16, "disk-full-at")
			case 3:
				c.pf.R.ErrAt = 1 + s.Intn(w*2+4, "read-err-at")
			}
		}
		s.End()
		t.Logf("pipeline %d: cap=%d encoder=%s decoder=%s faults=%+v msgs=%d", i, c.capacity, kindName(pl.useEWKB), kindName(pl.decEWKB), c.pf, len(pl.msgs))
		pls = append(pls, pl)
		cfgs = append(cfgs, c)
	}

	k := kernel.New(t, int64(totalWrites*3+8))
	// every byte can cost a few scheduling points when the pipe holds one byte and reads fragment
	k.MaxSteps = int64(totalWrites*16*12 + totalWrites*40 + 10000)
	for i, pl := range pls {
		pl.pipe = simio.NewPipe(k, t, cfgs[i].capacity, cfgs[i].pf)
		pl.start(t, k)
	}
	k.Run()
	if k.Stuck {
		// the kernel saw neither a scheduling event nor CPU use for seconds (a starved or
		// stopped process; nothing in this engine blocks outside the kernel): inconclusive
		t.Probe("run_abandoned_no_progress_and_no_cpu")
		return
	}
	if t.Failed() {
		return
	}
	if k.AbortWhy != "" {
		t.Violate("liveness", "pipe", "", "simulation aborted: %s", k.AbortWhy)
		return
	}
	for _, pl := range pls {
		pl.verify(t)
	}
}

func (pl *pipeline) start(t *core.T, k *kernel.Kernel) {
	pipe := pl.pipe
	useEWKB, decEWKB := pl.useEWKB, pl.decEWKB
	tag := fmt.Sprintf("p%d", pl.id)
	k.Go("producer"+tag, func(task *kernel.Task) {
		defer pipe.Close()
		var we *wkb.Encoder
		var ee *ewkb.Encoder
		encSRID := 0
		newEnc := func() {
			if useEWKB {
				ee = ewkb.NewEncoder(pipe.W())
				encSRID = ewkb.DefaultSRID
			} else {
				we = wkb.NewEncoder(pipe.W())
			}
		}
		newEnc()
		for i, x := range pl.msgs {
			effSRID := encSRID
			perCall := false
			switch x.reconfig {
			case 1:
				if useEWKB {
					ee.SetByteOrder(orders[x.order])
				} else {
					we.SetByteOrder(orders[x.order])
				}
				t.Logf("%s producer: SetByteOrder(%s)", tag, orderNames[x.order])
			case 2:
				if useEWKB {
					ee.SetSRID(x.srid)
					encSRID = x.srid
					effSRID = x.srid
					t.Logf("%s producer: SetSRID(%d)", tag, x.srid)
				}
			case 3:
				if useEWKB {
					perCall = true
					effSRID = x.srid
				}
			case 4:
				wkb.DefaultByteOrder = orders[x.order]
				ewkb.DefaultByteOrder = orders[x.order]
				if x.srid != 0 {
					ewkb.DefaultSRID = x.srid
				}
				newEnc()
				effSRID = encSRID
				t.Logf("%s producer: defaults set to %s/%d, new encoder", tag, orderNames[x.order], ewkb.DefaultSRID)
			}
			if !useEWKB {
				effSRID = 0
			}
			norm, hasBytes := m.Normalise(m.Clone(x.g))
			writesBefore, faultsBefore := pipe.Writes, pipe.WriteFailures
			var err error
			panicked := t.Guard("Encoder.Encode", func() {
				switch {
				case !useEWKB:
					err = we.Encode(x.g)
				case perCall:
					err = ee.Encode(x.g, x.srid)
				default:
					err = ee.Encode(x.g)
				}
			})
			if panicked {
				k.Abort("panic")
				return
			}
			failed := pipe.WriteFailures > faultsBefore
			t.Logf("%s producer: Encode #%d %s srid=%d -> err=%v (%d writes)", tag, i, gen.Describe(x.g), effSRID, err, pipe.Writes-writesBefore)
			if err != nil && !failed {
				t.Violate("encode-error", "Encoder.Encode", "", "Encode(%s) returned %v although every Write succeeded", gen.Describe(x.g), err)
				return
			}
			if err == nil && failed {
				t.Violate("write-error-swallowed", "Encoder.Encode", "", "Encode(%s) returned nil although a Write failed: the message is torn but acknowledged", gen.Describe(x.g))
				return
			}
			if err != nil {
				pl.producerCrashed = true
				return // crash: nothing after the failed write reaches the pipe
			}
			if !hasBytes {
				if pipe.Writes != writesBefore {
					t.Violate("nil-no-bytes", "Encoder.Encode", "", "Encode(%s) wrote %d chunks; a nil geometry must put nothing on the stream", gen.Describe(x.g), pipe.Writes-writesBefore)
					return
				}
				continue
			}
			pl.acked = append(pl.acked, expected{g: norm, srid: effSRID, desc: gen.Describe(x.g)})
			t.Op()
			t.State(fmt.Sprintf("%s/%s/%v/%v/%d", shape(norm), sridClass(effSRID), useEWKB, decEWKB, x.reconfig))
		}
	})

	k.Go("consumer"+tag, func(task *kernel.Task) {
		defer pipe.CloseRead()
		var wd *wkb.Decoder
		var ed *ewkb.Decoder
		if decEWKB {
			ed = ewkb.NewDecoder(pipe.R())
		} else {
			wd = wkb.NewDecoder(pipe.R())
		}
		for n := 0; n < 64; n++ {
			pipe.ReadsThisOp, pipe.BytesThisOp, pipe.StuttersThisOp = 0, 0, 0
			var g orb.Geometry
			var srid int
			var err error
			if t.Guard("Decoder.Decode", func() {
				if decEWKB {
					g, srid, err = ed.Decode()
				} else {
					g, err = wd.Decode()
				}
			}) {
				k.Abort("panic")
				return
			}
			if pipe.ReadsThisOp > pipe.BytesThisOp+pipe.StuttersThisOp+4 {
				t.Violate("liveness", "Decoder.Decode", "", "Decode used %d Reads for %d bytes and %d empty reads", pipe.ReadsThisOp, pipe.BytesThisOp, pipe.StuttersThisOp)
			}
			if err != nil {
				pl.finalErr = err
				t.Logf("%s consumer: Decode -> error %v", tag, err)
				return
			}
			t.Logf("%s consumer: Decode -> %s srid=%d", tag, gen.Describe(g), srid)
			pl.got = append(pl.got, expected{g: g, srid: srid})
			t.Op()
		}
		pl.finalErr = errors.New("consumer gave up after 64 messages")
	})
}

// verify: in order, exactly once, bit-identical.
func (pl *pipeline) verify(t *core.T) {
	acked, got, finalErr, decEWKB := pl.acked, pl.got, pl.finalErr, pl.decEWKB
	readErr := pl.pipe.ReadErrFired
	for i, r := range got {
		if i >= len(acked) {
			t.Violate("invented-message", "Decoder.Decode", "", "pipeline %d: the consumer decoded %d messages, only %d were acknowledged; extra: %s", pl.id, len(got), len(acked), gen.Describe(r.g))
			return
		}
		if !m.Equal(r.g, acked[i].g) {
			t.Violate("stream-roundtrip", "Decoder.Decode", "", "pipeline %d message %d: encoded %s, decoded %s", pl.id, i, acked[i].desc, gen.Describe(r.g))
			return
		}
		if decEWKB && r.srid != acked[i].srid {
			t.Violate("stream-srid", "Decoder.Decode", "", "pipeline %d message %d (%s): written srid %d, decoded srid %d", pl.id, i, acked[i].desc, acked[i].srid, r.srid)
			return
		}
	}
	if finalErr == nil {
		t.Violate("stream-end", "Decoder.Decode", "", "pipeline %d: the consumer stopped without an error", pl.id)
		return
	}
	if !readErr {
		if len(got) != len(acked) {
			t.Violate("lost-message", "Decoder.Decode", "", "pipeline %d: %d messages were acknowledged, the consumer decoded %d and then got %v", pl.id, len(acked), len(got), finalErr)
			return
		}
		// (which error ends a stream is not part of the property: any non-nil error will do;
		// io.EOF, wrapped or not, is what the current code returns)
		if !pl.producerCrashed && !errors.Is(finalErr, io.EOF) {
			t.Probe("stream_end_error_is_not_eof")
		}
	}
}

func kindName(e bool) string {
	if e {
		return "ewkb"
	}
	return "wkb"
}

func countPoints(g orb.Geometry) int {
	switch x := g.(type) {
	case orb.Point:
		return 1
	case orb.MultiPoint:
		return 3*len(x) + 1
	case orb.LineString:
		return len(x) + 1
	case orb.Ring:
		return len(x) + 2
	case orb.MultiLineString:
		n := 1
		for _, l := range x {
			n += len(l) + 2
		}
		return n
	case orb.Polygon:
		n := 1
		for _, l := range x {
			n += len(l) + 1
		}
		return n
	case orb.MultiPolygon:
		n := 1
		for _, p := range x {
			n += countPoints(p) + 2
		}
		return n
	case orb.Collection:
		n := 1
		for _, c := range x {
			n += countPoints(c) + 2
		}
		return n
	case orb.Bound:
		return 7
	}
	return 0
}

// ---------------------------------------------------------------- paths engine

func cp(b []byte) []byte { return append([]byte{}, b...) }

// RunPaths: every encode path and every decode path on one value.
func RunPaths(t *core.T) {
	s := t.Src
	// package-level configuration is part of the configuration space: it must not leak into
	// anything but the defaults of encoders created afterwards
	savedWO, savedEO, savedES := wkb.DefaultByteOrder, ewkb.DefaultByteOrder, ewkb.DefaultSRID
	defer func() { wkb.DefaultByteOrder, ewkb.DefaultByteOrder, ewkb.DefaultSRID = savedWO, savedEO, savedES }()
	if s.Chance(1, 4, "globals") {
		wkb.DefaultByteOrder = orders[s.Intn(2, "gwo")]
		ewkb.DefaultByteOrder = orders[s.Intn(2, "geo")]
		if s.Bool("gsrid") {
			ewkb.DefaultSRID = drawSRID(s)
		}
		t.Logf("package defaults: wkb %v, ewkb %v, srid %d", wkb.DefaultByteOrder, ewkb.DefaultByteOrder, ewkb.DefaultSRID)
	}
	opts := gen.DefaultOpts()
	var g orb.Geometry
	if s.Chance(1, 60, "big") {
		g = gen.Big(s) // element counts beyond the decoders' preallocation caps
		t.Probe("big_geometry")
	} else {
		g = gen.Geometry(s, opts)
	}
	oi := s.Intn(2, "order")
	order := orders[oi]
	srid := 0
	if !s.Chance(1, 4, "nosrid") {
		srid = drawSRID(s)
	}
	norm, hasBytes := m.Normalise(m.Clone(g))
	t.Logf("value %s order=%s srid=%d", gen.Describe(g), orderNames[oi], srid)
	t.State(fmt.Sprintf("paths/%s/%s/%s", shape(norm), orderNames[oi], sridClass(srid)))

	// ---- encode paths
	var plain, ext []byte
	var err1, err2 error
	if t.Guard("wkb.Marshal", func() { plain, err1 = wkb.Marshal(g, order) }) {
		return
	}
	if t.Guard("ewkb.Marshal", func() { ext, err2 = ewkb.Marshal(g, srid, order) }) {
		return
	}
	if err1 != nil || err2 != nil {
		t.Violate("encode-error", "Marshal", "", "Marshal(%s) failed: %v / %v", gen.Describe(g), err1, err2)
		return
	}
	var buf bytes.Buffer
	var err3 error
	if t.Guard("wkb.Encoder.Encode", func() { err3 = wkb.NewEncoder(&buf).SetByteOrder(order).Encode(g) }) {
		return
	}
	if err3 != nil || !bytes.Equal(buf.Bytes(), plain) {
		t.Violate("encode-paths-agree", "wkb.Encoder", "", "Encoder output differs from Marshal for %s (err %v): %x vs %x", gen.Describe(g), err3, buf.Bytes(), plain)
		return
	}
	buf.Reset()
	if t.Guard("ewkb.Encoder.Encode", func() { err3 = ewkb.NewEncoder(&buf).SetByteOrder(order).SetSRID(srid).Encode(g) }) {
		return
	}
	if err3 != nil || !bytes.Equal(buf.Bytes(), ext) {
		t.Violate("encode-paths-agree", "ewkb.Encoder", "", "Encoder output differs from Marshal for %s (err %v): %x vs %x", gen.Describe(g), err3, buf.Bytes(), ext)
		return
	}
	if !hasBytes {
		if plain != nil || ext != nil {
			t.Violate("nil-no-bytes", "Marshal", "", "Marshal(%s) returned %d/%d bytes; a nil geometry encodes to no bytes", gen.Describe(g), len(plain), len(ext))
			return
		}
		// the Valuers must hand NULL to the database
		var dv interface{}
		var verr error
		if t.Guard("wkb.Value", func() { dv, verr = wkb.Value(g).Value() }) {
			return
		}
		if dv != nil || verr != nil {
			t.Violate("nil-no-bytes", "wkb.Value", "", "Value(%s) = %v, %v; want NULL", gen.Describe(g), dv, verr)
		}
		if t.Guard("ewkb.Value", func() { dv, verr = ewkb.Value(g, srid).Value() }) {
			return
		}
		if dv != nil || verr != nil {
			t.Violate("nil-no-bytes", "ewkb.Value", "", "Value(%s) = %v, %v; want NULL", gen.Describe(g), dv, verr)
		}
		if t.Guard("ewkb.ValuePrefixSRID", func() { dv, verr = ewkb.ValuePrefixSRID(g, srid).Value() }) {
			return
		}
		if dv != nil || verr != nil {
			t.Violate("nil-no-bytes", "ewkb.ValuePrefixSRID", "", "Value(%s) = %v, %v; want NULL", gen.Describe(g), dv, verr)
		}
		t.Op()
		return
	}
	if len(plain) == 0 || len(ext) == 0 {
		t.Violate("encode-error", "Marshal", "", "Marshal(%s) returned no bytes", gen.Describe(g))
		return
	}
	var hx string
	if t.Guard("wkb.MarshalToHex", func() { hx, err3 = wkb.MarshalToHex(g, order) }) {
		return
	}
	if err3 != nil || hx != hex.EncodeToString(plain) {
		t.Violate("encode-paths-agree", "wkb.MarshalToHex", "", "MarshalToHex differs from hex(Marshal) for %s", gen.Describe(g))
		return
	}
	if t.Guard("ewkb.MarshalToHex", func() { hx, err3 = ewkb.MarshalToHex(g, srid, order) }) {
		return
	}
	if err3 != nil || hx != hex.EncodeToString(ext) {
		t.Violate("encode-paths-agree", "ewkb.MarshalToHex", "", "MarshalToHex differs from hex(Marshal) for %s", gen.Describe(g))
		return
	}
	var must []byte
	if t.Guard("wkb.MustMarshal", func() { must = wkb.MustMarshal(g, order) }) || !bytes.Equal(must, plain) {
		t.Violate("encode-paths-agree", "wkb.MustMarshal", "", "MustMarshal differs from Marshal for %s", gen.Describe(g))
		return
	}
	if t.Guard("ewkb.MustMarshal", func() { must = ewkb.MustMarshal(g, srid, order) }) || !bytes.Equal(must, ext) {
		t.Violate("encode-paths-agree", "ewkb.MustMarshal", "", "MustMarshal differs from Marshal for %s", gen.Describe(g))
		return
	}
	t.Op()

	// ---- byte-slice decoder
	check := func(api string, got orb.Geometry, gotSRID, wantSRID int, err error) bool {
		if err != nil {
			t.Violate("roundtrip", api, "", "%s of the encoding of %s (order %s, srid %d) failed: %v", api, gen.Describe(g), orderNames[oi], srid, err)
			return false
		}
		if !m.Equal(got, norm) {
			t.Violate("roundtrip", api, "", "%s: encoded %s (order %s), decoded %s", api, gen.Describe(norm), orderNames[oi], gen.Describe(got))
			return false
		}
		if gotSRID != wantSRID {
			t.Violate("srid", api, "", "%s: written srid %d, decoded %d (%s)", api, wantSRID, gotSRID, gen.Describe(g))
			return false
		}
		t.Op()
		return true
	}
	{
		var got orb.Geometry
		var gs int
		var err error
		in := cp(plain)
		if t.Guard("wkb.Unmarshal", func() { got, err = wkb.Unmarshal(in) }) || !check("wkb.Unmarshal", got, 0, 0, err) {
			return
		}
		for i := range in {
			in[i] = 0x5A // the caller reuses its buffer: the decoded value must not change with it
		}
		if !m.Equal(got, norm) {
			t.Violate("result-aliased", "wkb.Unmarshal", "", "the geometry returned by Unmarshal changed when the caller overwrote the input buffer: now %s, was %s", gen.Describe(got), gen.Describe(norm))
			return
		}
		if t.Guard("wkb.Unmarshal", func() { got, err = wkb.Unmarshal(cp(ext)) }) || !check("wkb.Unmarshal(ewkb bytes)", got, 0, 0, err) {
			return
		}
		if t.Guard("ewkb.Unmarshal", func() { got, gs, err = ewkb.Unmarshal(cp(ext)) }) || !check("ewkb.Unmarshal", got, gs, srid, err) {
			return
		}
		if t.Guard("ewkb.Unmarshal", func() { got, gs, err = ewkb.Unmarshal(cp(plain)) }) || !check("ewkb.Unmarshal(wkb bytes)", got, gs, 0, err) {
			return
		}
	}

	// ---- stream decoder over a faulty reader (benign faults: results must not change)
	{
		rf := simio.DrawReaderFaults(s)
		t.Logf("stream reader faults %+v", rf)
		r := simio.NewReader(t, cp(ext), rf)
		d := ewkb.NewDecoder(r)
		var got orb.Geometry
		var gs int
		var err error
		if t.Guard("ewkb.Decoder.Decode", func() { got, gs, err = d.Decode() }) || !check("ewkb.Decoder.Decode", got, gs, srid, err) {
			return
		}
		if r.Reads > len(ext)+r.Stutters+4 {
			t.Violate("liveness", "ewkb.Decoder.Decode", "", "Decode used %d Reads for %d bytes and %d empty reads", r.Reads, len(ext), r.Stutters)
		}
		if t.Guard("ewkb.Decoder.Decode", func() { got, gs, err = d.Decode() }) {
			return
		}
		if err == nil {
			t.Violate("stream-end", "ewkb.Decoder.Decode", "", "second Decode on a one-message stream returned a geometry (%v) instead of an error", got)
			return
		}
		r2 := simio.NewReader(t, cp(plain), simio.DrawReaderFaults(s))
		if t.Guard("wkb.Decoder.Decode", func() { got, err = wkb.NewDecoder(r2).Decode() }) || !check("wkb.Decoder.Decode", got, 0, 0, err) {
			return
		}
	}

	// ---- database/sql over the stub driver
	db := simdb.DB()
	type combo struct {
		scanner int // 0 wkb.Scanner, 1 ewkb.Scanner, 2 ewkb.ScannerPrefixSRID
		valuer  int // 0 wkb.Value, 1 ewkb.Value, 2 ewkb.ValuePrefixSRID
		framing int
	}
	// srid for the prefix framings: the deprecated wkb fallback needs a low byte that cannot be taken for WKB or hex
	prefixSRID := srid
	if prefixSRID == 0 {
		prefixSRID = 4326
	}
	// The deprecated fallback of wkb.Scanner strips the prefix when the blob does not start like WKB
	// or hex. Prefixes that DO look like one of those are ambiguous by construction and not part of the
	// claim: first byte 0 or 1 (a byte-order byte), "00"/"01" (hex), "\\x".
	wkbPrefixOK := func(v int) bool {
		b0, b1 := byte(v), byte(v>>8)
		return b0 != 0 && b0 != 1 && !(b0 == '0' && (b1 == '0' || b1 == '1')) && !(b0 == '\\' && b1 == 'x')
	}
	var combos []combo
	for _, f := range []int{simdb.Raw, simdb.HexLower, simdb.HexUpper, simdb.BackslashX} {
		combos = append(combos, combo{0, 0, f}, combo{0, 1, f}, combo{1, 0, f}, combo{1, 1, f})
	}
	combos = append(combos, combo{2, 2, simdb.Raw}, combo{2, 0, simdb.PrefixSRID})
	if wkbPrefixOK(prefixSRID) {
		combos = append(combos, combo{0, 2, simdb.Raw}, combo{0, 0, simdb.PrefixSRID})
	}
	nCombos := 1 + s.Intn(3, "ncombos")
	for ci := 0; ci < nCombos; ci++ {
		s.Begin("combo")
		c := combos[s.Intn(len(combos), "combo")]
		reuse := s.Bool("buffer-reuse")
		s.End()
		// insert through the real database/sql and the Valuer
		var valuer interface{}
		wantSRID := 0
		switch c.valuer {
		case 0:
			valuer = wkb.Value(g)
		case 1:
			valuer = ewkb.Value(g, srid)
			wantSRID = srid
		default:
			valuer = ewkb.ValuePrefixSRID(g, prefixSRID)
			wantSRID = prefixSRID
		}
		if c.framing == simdb.PrefixSRID {
			wantSRID = prefixSRID
		}
		if c.scanner == 0 {
			wantSRID = 0 // wkb.Scanner does not report an SRID
		}
		simdb.S = simdb.State{}
		var xerr error
		if t.Guard("db.Exec(Valuer)", func() { _, xerr = db.Exec("INSERT INTO t (g) VALUES (?)", valuer) }) {
			return
		}
		if xerr != nil || !simdb.S.HasCell || simdb.S.Cell == nil {
			t.Violate("valuer", "Value", "", "inserting %s through the Valuer failed: %v (cell %v)", gen.Describe(g), xerr, simdb.S.Cell)
			return
		}
		stored := simdb.S.Cell
		simdb.S.Framing = c.framing
		simdb.S.PrefixSRID = uint32(prefixSRID)
		simdb.S.ReuseBuffer = reuse
		if reuse {
			t.Fault("buffer_reuse")
		}
		cname := fmt.Sprintf("%s<-%s/%s", []string{"wkb.Scanner", "ewkb.Scanner", "ewkb.ScannerPrefixSRID"}[c.scanner], []string{"wkb.Value", "ewkb.Value", "ewkb.ValuePrefixSRID"}[c.valuer], simdb.FramingNames[c.framing])
		t.State(fmt.Sprintf("db/%s/%s/%v", cname, shape(norm), reuse))

		// environment behaviour: a NULL or a wrong column type first; nothing may panic and the next row must scan
		if s.Chance(1, 6, "env") {
			simdb.S.Cell = stored
			if s.Bool("null") {
				simdb.S.ReturnNull = true
				t.Fault("null_column")
			} else {
				simdb.S.WrongType = true
				t.Fault("wrong_type")
			}
			dst := m.NewDest(s.Intn(m.NumDest, "envdest"))
			if t.Guard(cname+".Scan(NULL/wrong type)", func() { _ = db.QueryRow("SELECT g FROM t").Scan(newScanner(c.scanner, dst)) }) {
				return
			}
			simdb.S.ReturnNull, simdb.S.WrongType = false, false
		}

		for d := 0; d < m.NumDest; d++ {
			dst := m.NewDest(d)
			sc := newScanner(c.scanner, dst)
			var serr error
			api := cname + "(" + m.DestNames[d] + ")"
			if t.Guard(api, func() { serr = db.QueryRow("SELECT g FROM t").Scan(sc) }) {
				return
			}
			want, wrongKind := m.Coerce(d, norm)
			sg, ssrid, valid := scanned(sc)
			t.Logf("%s -> %s srid=%d valid=%v err=%v", api, gen.Describe(sg), ssrid, valid, serr)
			if wrongKind {
				if !errors.Is(serr, wkb.ErrIncorrectGeometry) && !errors.Is(serr, ewkb.ErrIncorrectGeometry) {
					t.Violate("coercion-error", api, "", "scanning %s into %s must fail with the incorrect-geometry error, got (%s, %v)", gen.Describe(norm), m.DestNames[d], gen.Describe(sg), serr)
					return
				}
				t.Op()
				continue
			}
			if serr != nil {
				t.Violate("scan", api, "", "scanning %s (stored %x, framing %s) failed: %v", gen.Describe(norm), stored, simdb.FramingNames[c.framing], serr)
				return
			}
			if !m.Equal(sg, want) {
				t.Violate("scan", api, "", "scanner.Geometry is %s, want %s (value %s)", gen.Describe(sg), gen.Describe(want), gen.Describe(norm))
				return
			}
			if dst != nil && !m.Equal(m.DestValue(dst), want) {
				t.Violate("scan", api, "", "destination holds %s, want %s (value %s)", gen.Describe(m.DestValue(dst)), gen.Describe(want), gen.Describe(norm))
				return
			}
			if !valid {
				t.Violate("scan", api, "", "Valid is false after a successful scan of %s", gen.Describe(norm))
				return
			}
			if c.scanner != 0 && ssrid != wantSRID {
				t.Violate("scan-srid", api, "", "scanner.SRID is %d, want %d (value %s)", ssrid, wantSRID, gen.Describe(norm))
				return
			}
			t.Op()
		}
	}
	if !t.Failed() && s.Chance(1, 2, "reuse?") {
		scannerReuse(t, g)
	}
	if !t.Failed() && s.Chance(1, 2, "two-args?") {
		twoValuers(t, g, srid)
	}
	if !t.Failed() && s.Chance(1, 2, "foreign?") {
		foreignBytes(t, norm, srid)
	}
}

// foreignBytes: the same value written by another producer - the harness's own
// writer, which gives every member of a multi geometry or collection its own
// byte order (the format allows it; orb's encoder never does it). Every decode
// path must return the value for these bytes too.
func foreignBytes(t *core.T, norm orb.Geometry, srid int) {
	s := t.Src
	s.Begin("foreign")
	defer s.End()
	mixed := false
	first, n := true, 0
	var firstLE bool
	data := m.Encode(norm, srid, func() bool {
		le := s.Bool("le")
		n++
		if n > 64 {
			le = firstLE // big values: the first members decide, the rest follow the outermost order
		}
		if first {
			first, firstLE = false, le
		} else if le != firstLE {
			mixed = true
		}
		return le
	})
	if mixed {
		t.Probe("mixed_byte_order_message")
	}
	t.Logf("foreign encoding (mixed orders: %v) %x", mixed, clip(data, 120))
	check := func(api string, got orb.Geometry, gotSRID, wantSRID int, err error) bool {
		if err != nil {
			t.Violate("foreign-roundtrip", api, "", "%s of a foreign encoding of %s (members in their own byte orders: %v, srid %d) failed: %v\n  %x", api, gen.Describe(norm), mixed, srid, err, clip(data, 200))
			return false
		}
		if !m.Equal(got, norm) {
			t.Violate("foreign-roundtrip", api, "", "%s: a foreign encoding of %s (members in their own byte orders: %v) decoded as %s\n  %x", api, gen.Describe(norm), mixed, gen.Describe(got), clip(data, 200))
			return false
		}
		if gotSRID != wantSRID {
			t.Violate("foreign-srid", api, "", "%s: written srid %d, decoded %d (%s)", api, wantSRID, gotSRID, gen.Describe(norm))
			return false
		}
		t.Op()
		return true
	}
	var got orb.Geometry
	var gs int
	var err error
	if t.Guard("wkb.Unmarshal", func() { got, err = wkb.Unmarshal(cp(data)) }) || !check("wkb.Unmarshal", got, 0, 0, err) {
		return
	}
	if t.Guard("ewkb.Unmarshal", func() { got, gs, err = ewkb.Unmarshal(cp(data)) }) || !check("ewkb.Unmarshal", got, gs, srid, err) {
		return
	}
	r := simio.NewReader(t, cp(data), simio.DrawReaderFaults(s))
	if t.Guard("ewkb.Decoder.Decode", func() { got, gs, err = ewkb.NewDecoder(r).Decode() }) || !check("ewkb.Decoder.Decode", got, gs, srid, err) {
		return
	}
	r2 := simio.NewReader(t, cp(data), simio.DrawReaderFaults(s))
	if t.Guard("wkb.Decoder.Decode", func() { got, err = wkb.NewDecoder(r2).Decode() }) || !check("wkb.Decoder.Decode", got, 0, 0, err) {
		return
	}
	// scanners, every destination, one drawn framing
	db := simdb.DB()
	kind := s.Intn(2, "scanner")
	framing := s.Intn(4, "framing")
	for d := 0; d < m.NumDest; d++ {
		dst := m.NewDest(d)
		sc := newScanner(kind, dst)
		api := []string{"wkb.Scanner", "ewkb.Scanner"}[kind] + "(foreign," + m.DestNames[d] + ")"
		simdb.S = simdb.State{Cell: data, HasCell: true, Framing: framing}
		var serr error
		if t.Guard(api, func() { serr = db.QueryRow("SELECT g FROM t").Scan(sc) }) {
			return
		}
		want, wrongKind := m.Coerce(d, norm)
		sg, ssrid, _ := scanned(sc)
		if wrongKind {
			if !errors.Is(serr, wkb.ErrIncorrectGeometry) && !errors.Is(serr, ewkb.ErrIncorrectGeometry) {
				t.Violate("coercion-error", api, "", "scanning a foreign encoding of %s into %s must fail with the incorrect-geometry error, got (%s, %v)", gen.Describe(norm), m.DestNames[d], gen.Describe(sg), serr)
				return
			}
			continue
		}
		if serr != nil || !m.Equal(sg, want) || (dst != nil && !m.Equal(m.DestValue(dst), want)) {
			t.Violate("foreign-scan", api, "", "a foreign encoding of %s (members in their own byte orders: %v): scanner.Geometry %s, destination %s, want %s, err %v\n  %x", gen.Describe(norm), mixed, gen.Describe(sg), gen.Describe(m.DestValue(dst)), gen.Describe(want), serr, clip(data, 200))
			return
		}
		if kind == 1 && ssrid != srid {
			t.Violate("foreign-srid", api, "", "scanner.SRID is %d, the bytes carry %d", ssrid, srid)
			return
		}
		t.Op()
	}
}

func clip(b []byte, n int) []byte {
	if len(b) > n {
		return b[:n]
	}
	return b
}

// twoValuers: one statement with two geometry arguments. database/sql calls
// Value() on every argument before it hands any of them to the driver, so the
// bytes of the first must still be intact when the second has been produced.
func twoValuers(t *core.T, first orb.Geometry, srid int) {
	s := t.Src
	s.Begin("two-args")
	defer s.End()
	o := gen.DefaultOpts()
	o.TopNil = false
	second := gen.Geometry(s, o)
	kind := s.Intn(3, "valuer")
	mk := func(g orb.Geometry) interface{} {
		switch kind {
		case 0:
			return wkb.Value(g)
		case 1:
			return ewkb.Value(g, srid)
		}
		return ewkb.ValuePrefixSRID(g, 4326)
	}
	api := []string{"wkb.Value", "ewkb.Value", "ewkb.ValuePrefixSRID"}[kind] + " x2"
	simdb.S = simdb.State{}
	var err error
	if t.Guard(api, func() { _, err = simdb.DB().Exec("INSERT INTO t (a, b) VALUES (?, ?)", mk(first), mk(second)) }) {
		return
	}
	if err != nil || len(simdb.S.Cells) != 2 {
		t.Violate("valuer", api, "", "inserting two geometries in one statement failed: %v", err)
		return
	}
	for i, g := range []orb.Geometry{first, second} {
		norm, ok := m.Normalise(m.Clone(g))
		cell := simdb.S.Cells[i]
		if !ok {
			if cell != nil {
				t.Violate("nil-no-bytes", api, "", "argument %d (%s) must be stored as NULL, got %x", i, gen.Describe(g), cell)
			}
			continue
		}
		if kind == 2 && len(cell) >= 4 {
			cell = cell[4:]
		}
		got, _, derr := ewkb.Unmarshal(cp(cell))
		t.Logf("%s argument %d %s stored as %x", api, i, gen.Describe(norm), cell)
		if derr != nil || !m.Equal(got, norm) {
			t.Violate("valuer", api, "", "argument %d of a two-argument statement: value %s, the database received bytes that decode to %s (err %v)", i, gen.Describe(norm), gen.Describe(got), derr)
			return
		}
		t.Op()
	}
}

// scannerReuse: one scanner object scans two different rows in a row; the
// second result must be the second row's value (no state kept between scans).
func scannerReuse(t *core.T, first orb.Geometry) {
	s := t.Src
	s.Begin("reuse")
	defer s.End()
	o := gen.DefaultOpts()
	o.TopNil = false
	second := gen.Geometry(s, o)
	if s.Bool("variant") {
		// the usual table: rows of one kind; the second value is a smaller variant of the first
		// (so it would fit into whatever memory the first result occupies)
		second = smallerVariant(m.Clone(first), orb.Point{gen.Coord(s, o.Mode), gen.Coord(s, o.Mode)})
	}
	d := s.Intn(m.NumDest, "dest")
	kind := s.Intn(2, "scanner")
	db := simdb.DB()
	dst := m.NewDest(d)
	sc := newScanner(kind, dst)
	api := []string{"wkb.Scanner", "ewkb.Scanner"}[kind] + "(reused," + m.DestNames[d] + ")"
	srids := []int{0, 0}
	srids[s.Intn(2, "which-has-srid")] = drawSRID(s) // one row carries an SRID, the other does not
	if s.Bool("both") {
		srids[0], srids[1] = drawSRID(s), drawSRID(s)
	}
	// what the first row gave the caller, kept while the second row is scanned
	var keptSG, keptDst, keptWant orb.Geometry
	for i, g := range []orb.Geometry{first, second} {
		norm, ok := m.Normalise(m.Clone(g))
		if !ok {
			return
		}
		data, err := ewkb.Marshal(g, srids[i])
		if err != nil || data == nil {
			return
		}
		simdb.S = simdb.State{Cell: data, HasCell: true, Framing: s.Intn(4, "framing")}
		var serr error
		if t.Guard(api, func() { serr = db.QueryRow("SELECT g FROM t").Scan(sc) }) {
			return
		}
		want, wrongKind := m.Coerce(d, norm)
		sg, ssrid, _ := scanned(sc)
		t.Logf("%s row %d %s srid %d -> %s srid %d err=%v", api, i, gen.Describe(norm), srids[i], gen.Describe(sg), ssrid, serr)
		if !wrongKind && serr == nil && kind == 1 && ssrid != srids[i] {
			t.Violate("scan-srid", api, "", "row %d of a reused scanner: the row carries srid %d, scanner.SRID is %d", i, srids[i], ssrid)
			return
		}
		if wrongKind {
			if !errors.Is(serr, wkb.ErrIncorrectGeometry) && !errors.Is(serr, ewkb.ErrIncorrectGeometry) {
				t.Violate("coercion-error", api, "", "row %d: scanning %s into %s must fail with the incorrect-geometry error, got (%s, %v)", i, gen.Describe(norm), m.DestNames[d], gen.Describe(sg), serr)
				return
			}
			continue
		}
		if serr != nil || !m.Equal(sg, want) || (dst != nil && !m.Equal(m.DestValue(dst), want)) {
			t.Violate("scan-reuse", api, "", "row %d of a reused scanner: value %s, want %s, scanner.Geometry %s, destination %s, err %v", i, gen.Describe(norm), gen.Describe(want), gen.Describe(sg), gen.Describe(m.DestValue(dst)), serr)
			return
		}
		if i == 0 {
			keptSG, keptWant = sg, want
			if dst != nil {
				keptDst = m.DestValue(dst)
			}
		} else if keptWant != nil {
			if !m.Equal(keptSG, keptWant) || (keptDst != nil && !m.Equal(keptDst, keptWant)) {
				t.Violate("result-stable", api, "", "the value the first row gave the caller changed when the second row was scanned into the same destination: now %s / %s, was %s", gen.Describe(keptSG), gen.Describe(keptDst), gen.Describe(keptWant))
				return
			}
		}
		t.Op()
	}
}

// smallerVariant changes g (a private copy) into a value of the same kind with
// no more elements anywhere and a different first coordinate.
func smallerVariant(g orb.Geometry, p orb.Point) orb.Geometry {
	pts := func(x []orb.Point) []orb.Point {
		if len(x) > 2 {
			x = x[:len(x)-1]
		}
		if len(x) > 0 {
			x[0] = p
		}
		return x
	}
	switch x := g.(type) {
	case orb.Point:
		return p
	case orb.MultiPoint:
		return orb.MultiPoint(pts(x))
	case orb.LineString:
		return orb.LineString(pts(x))
	case orb.Ring:
		return orb.Ring(pts(x))
	case orb.MultiLineString:
		if len(x) > 1 {
			x = x[:len(x)-1]
		}
		for i := range x {
			x[i] = orb.LineString(pts(x[i]))
		}
		return x
	case orb.Polygon:
		if len(x) > 1 {
			x = x[:len(x)-1]
		}
		for i := range x {
			x[i] = orb.Ring(pts(x[i]))
		}
		return x
	case orb.MultiPolygon:
		if len(x) > 1 {
			x = x[:len(x)-1]
		}
		for i := range x {
			x[i] = smallerVariant(x[i], p).(orb.Polygon)
		}
		return x
	case orb.Collection:
		if len(x) > 1 {
			x = x[:len(x)-1]
		}
		for i := range x {
			x[i] = smallerVariant(x[i], p)
		}
		return x
	case orb.Bound:
		return orb.Bound{Min: p, Max: x.Max}
	}
	return g
}

func newScanner(kind int, dst interface{}) interface{} {
	switch kind {
	case 0:
		return wkb.Scanner(dst)
	case 1:
		return ewkb.Scanner(dst)
	}
	return ewkb.ScannerPrefixSRID(dst)
}

func scanned(sc interface{}) (orb.Geometry, int, bool) {
	switch x := sc.(type) {
	case *wkb.GeometryScanner:
		return x.Geometry, 0, x.Valid
	case *ewkb.GeometryScanner:
		return x.Geometry, x.SRID, x.Valid
	}
	return nil, 0, false
}
