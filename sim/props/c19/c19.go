// Package c19: concurrent quadtree readers under a simulated scheduler.
package c19

import (
	"fmt"
	"time"

	"github.com/paulmach/orb"
	"github.com/paulmach/orb/quadtree"
	"github.com/paulmach/orb/verifrt"

	"verif/sim/core"
	"verif/sim/kernel"
	"verif/sim/props"
	"verif/sim/qt"
)

func init() {
	props.Register(&props.Property{
		ID:    "C19",
		Level: "exploration",
		Rule: "a case is one seeded (tree-building history incl. removals, 2-32 reader tasks x 1-8 queries of all six kinds, scheduling strategy, " +
			"interleaving) tuple; the scheduler decides which task runs at every yield (engine 'natural': yields at every Point()/filter callback of the " +
			"unmodified package; engine 'ast': a yield before every statement of quadtree and planar in an instrumented copy; engine 'race': real goroutines " +
			"under the race detector). Callers behave like callers: a task hands its previous result back as the next buffer (chained), a quarter of the epochs share one result array out as adjacent k-slot windows, the optional distance limit is one slice per value passed as limits..., one predicate in ten searches the same tree itself (small trees); every returned slice is compared again when the epoch is over. Distinct = distinct event-log digest; non-trivial = at least one context switch happened inside a query.",
		StateDef: "distinct (tree node count bucket, task count, strategy, queries) signatures; distinct_schedules = distinct hashes of the (from,to,site) switch sequence",
		Engines: []props.Engine{
			{Name: "natural", Variant: "plain", Run: Run, QuickRuns: 40000, Share: 0.35, MinThorough: 200000, RunTimeout: 120 * time.Second},
			{Name: "ast", Variant: "instr", Run: Run, QuickRuns: 16000, Share: 0.45, MinThorough: 60000, RunTimeout: 120 * time.Second},
			{Name: "race", Variant: "race", Run: RunRace, QuickRuns: 2000, Share: 0.2, MinThorough: 8000, RunTimeout: 120 * time.Second, Procs: 8, Workers: 4},
		},
		Real:  []string{"quadtree", "planar"},
		Stub:  []string{"orb.Pointer and FilterFunc implementations are the harness's (user callbacks)"},
		Instr: []string{"quadtree, planar and the root package orb (engine ast: a yield before every statement, 757 sites)"},
		Assumptions: []string{"the tree is not mutated while queries run (documented as unsupported)", "result buffers are per task",
			"race engine: real goroutines, verdict by the race detector's happens-before analysis (runtime monitoring, labelled as such)"},
		NonTrivial: func(o *core.Outcome) bool { return o.Switches > 0 },
	})
}

// Built is a tree plus its model and the plan of reader tasks. Twin is a
// second tree built by the same history: the sequential reference answers are
// taken from it, so that the tree under test has not been touched by any query
// before the concurrent epoch starts (a query that tidies the tree up as a
// side effect would otherwise hide behind the sequential pass).
type Built struct {
	W     *qt.World
	Tree  *quadtree.Quadtree
	Twin  *quadtree.Quadtree
	Model qt.Model
	Plan  [][]*qt.Query
}

type buildOp struct {
	kind int // 0 add, 1 remove
	x    *qt.Pt
}

func apply(b orb.Bound, ops []buildOp) *quadtree.Quadtree {
	tr := quadtree.New(b)
	for _, op := range ops {
		x := op.x
		if op.kind == 0 {
			tr.Add(x)
		} else {
			tr.Remove(x, func(p orb.Pointer) bool { return p == orb.Pointer(x) })
		}
	}
	return tr
}

// Build draws the tree-building history and the reader plan (shared with the race engine).
func Build(t *core.T) *Built {
	s := t.Src
	alphabet := []int{2, 3, 5, 9, 16, 32, 64}[s.Pick([]int{1, 1, 2, 2, 2, 2, 1}, "alphabet")]
	b := &Built{W: qt.NewWorld(s, alphabet)}
	nAdd := []int{0, 1, 3, 8, 20, 60, 150}[s.Pick([]int{1, 1, 2, 3, 3, 2, 1}, "nadd")]
	if s.Chance(1, 50, "bigtree") {
		nAdd = []int{600, 2000}[s.Intn(2, "nbig")] // scale: deep trees, large k, long results
	}
	id := 0
	var removed []*qt.Pt
	var ops []buildOp
	s.Repeat(0, nAdd, nAdd, "build", func(i int) {
		switch s.Pick([]int{6, 2, 1}, "bop") {
		case 0:
			x := &qt.Pt{ID: id, P: b.W.Pool[s.Intn(len(b.W.Pool), "pt")]}
			id++
			ops = append(ops, buildOp{0, x})
			b.Model.Add(x)
		case 1:
			if len(b.Model.Live) == 0 {
				return
			}
			x := b.Model.Live[s.Intn(len(b.Model.Live), "victim")]
			ops = append(ops, buildOp{1, x})
			b.Model.RemoveIdentity(x)
			removed = append(removed, x)
		default:
			if len(removed) == 0 {
				return
			}
			x := removed[len(removed)-1]
			removed = removed[:len(removed)-1]
			ops = append(ops, buildOp{0, x})
			b.Model.Add(x)
		}
	})
	b.Tree = apply(b.W.Bound, ops)
	b.Twin = apply(b.W.Bound, ops)
	nt := 2 + s.Pick([]int{6, 4, 3, 2, 2, 1, 1}, "ntasks")
	if s.Chance(1, 10, "manytasks") {
		nt = s.Range(9, 32, "nt")
	}
	limits := map[float64][]float64{} // callers keep one options slice per limit and pass it to every query that uses it
	for i := 0; i < nt; i++ {
		s.Begin("task")
		var qs []*qt.Query
		s.Repeat(1, 2, 8, "query", func(int) {
			q := b.W.DrawQuery(s, -1)
			if q.F != nil && len(b.Model.Live) > 150 {
				q.F.Reenter = false // nested searches from inside the predicate only on small trees (steps multiply)
			}
			if q.Limit != nil {
				if sl, ok := limits[q.MaxDist]; ok {
					q.Limit = sl
				} else {
					limits[q.MaxDist] = q.Limit
				}
			}
			if nAdd >= 600 && (q.Kind == qt.QKNearest || q.Kind == qt.QKNearestMatching) && s.Bool("scalek") {
				q.K = []int{129, 200, 257, 700}[s.Intn(4, "kscale")] // large-k paths under concurrency
			}
			qs = append(qs, q)
		})
		b.Plan = append(b.Plan, qs)
		s.End()
	}
	if s.Chance(1, 4, "carved-buffers") {
		// one result array for the whole epoch, a window per k-nearest query
		var all []*qt.Query
		for _, qs := range b.Plan {
			all = append(all, qs...)
		}
		if qt.Carve(all, 300) > 1 {
			t.Probe("buffers_carved_from_one_array")
		}
	}
	return b
}

// Run is one simulated epoch: build, run every query alone, then all tasks
// concurrently under the scheduler.
var stuckRuns int

func Run(t *core.T) {
	if stuckRuns > 8 {
		// every such run leaks its blocked goroutines; stop exploring with this engine in this process
		t.Probe("run_skipped_after_repeated_blocking")
		t.Src.Draw(2, "skip")
		return
	}
	b := Build(t)
	t.Logf("tree: %d live pointers, bound %v..%v; %d tasks", len(b.Model.Live), b.W.Bound.Min, b.W.Bound.Max, len(b.Plan))
	// the image is taken before any query has touched the tree under test
	before, nodes := qt.Image(b.Tree)
	if h2, _ := qt.Image(b.Tree); h2 != before {
		t.Out.Trouble = "tree image is not stable between two consecutive walks"
		return
	}
	if msg := b.Model.CheckContents(b.Twin); msg != "" {
		t.Violate("contents", "build", "", "after the building history: %s", msg)
		return
	}

	// every planned query alone, against the twin built by the same history
	want := make([][]qt.Result, len(b.Plan))
	total := 0
	for i, qs := range b.Plan {
		want[i] = make([]qt.Result, len(qs))
		var prev []orb.Pointer // the task's previous result, which chained queries hand back as their buffer
		for j, q := range qs {
			q, i, j := q, i, j
			if t.Guard(qt.QueryNames[q.Kind], func() {
				r := q.ExecBuf(b.Twin, prev)
				if !r.IsOne && q.Win == nil { // (a window of the shared array is never handed back: its capacity covers other windows)
					prev = r.Many
				}
				want[i][j] = r.Clone()
			}) {
				return
			}
			if oracle, msg := b.Model.Check(q, want[i][j]); oracle != "" {
				t.Violate("alone-"+oracle, qt.QueryNames[q.Kind], "", "%v alone on live=%v: %s", q, b.Model.Live, msg)
				return
			}
			total++
		}
	}
	instr := props.Variant == "instr"
	perQuery := int64(nodes + 10)
	if instr {
		perQuery *= 40
	}
	k := kernel.New(t, int64(total)*perQuery/4+4)
	k.MaxSteps = int64(total+1)*perQuery*200 + 100000
	period := int64(1) << uint(2*t.Src.Intn(4, "imgperiod")) // 1,4,16,64
	minPeriod := int64(nodes / 16)
	if instr {
		minPeriod = int64(nodes / 2)
	}
	for period < minPeriod {
		period *= 4
	}
	opBudget := 200 * perQuery

	qt.PointHook = func() { k.Yield(-1) }
	qt.FilterHook = func() { k.Yield(-2) }
	verifrt.YieldHook = k.Yield
	// whether a sync.Pool hands back a pooled object is a choice of the run, not of the Go runtime
	verifrt.ResetPools()
	verifrt.PoolHook = func(n int) bool { return !t.Src.Chance(1, 4, "pool-fresh") }
	defer func() { qt.PointHook, qt.FilterHook, verifrt.YieldHook, verifrt.PoolHook = nil, nil, nil, nil }()

	k.OnStep = func(cur *kernel.Task, site int) {
		if cur.OpSteps > opBudget {
			t.Violate("liveness", "query", "", "task %s: a query used more than %d scheduling points on a tree of %d nodes", cur.Name, opBudget, nodes)
			k.Abort("liveness")
			return
		}
		if k.Steps%period == 0 {
			if h, _ := qt.Image(b.Tree); h != before {
				t.Violate("tree-image", "during-queries", "", "the tree object graph changed while only read-only queries were running (step %d, task %s, site %d)", k.Steps, cur.Name, site)
				k.Abort("image")
			}
		}
	}
	held := make([][]qt.Result, len(b.Plan)) // what each query returned, kept until the epoch is over
	clobbered := make([][]bool, len(b.Plan)) // results the task itself handed back as a buffer
	for i := range b.Plan {
		held[i] = make([]qt.Result, len(b.Plan[i]))
		clobbered[i] = make([]bool, len(b.Plan[i]))
	}
	for i := range b.Plan {
		i := i
		k.Go(fmt.Sprintf("reader%d", i), func(task *kernel.Task) {
			var prev []orb.Pointer
			last := -1
			for j, q := range b.Plan[i] {
				task.OpSteps = 0
				var got qt.Result
				if q.BufCap == qt.Chain && last >= 0 {
					clobbered[i][last] = true // the task gave that slice away itself
				}
				if t.Guard(qt.QueryNames[q.Kind], func() { got = q.ExecBuf(b.Tree, prev) }) {
					k.Abort("panic")
					return
				}
				if !got.IsOne && q.Win == nil {
					prev, last = got.Many, j
				}
				t.Logf("reader%d: %v -> %v", i, q, got)
				held[i][j] = got
				if !got.SameAs(want[i][j]) {
					t.Violate("same-as-alone", qt.QueryNames[q.Kind], "", "reader%d: %v returned %v concurrently, %v alone", i, q, got, want[i][j])
					k.Abort("differs")
					return
				}
				t.Op()
			}
		})
	}
	k.Run()
	qt.PointHook, qt.FilterHook, verifrt.YieldHook, verifrt.PoolHook = nil, nil, nil, nil
	if k.Stuck {
		// a task blocked on a lock or channel the simulator does not own while another
		// task was parked inside the critical section: this engine cannot schedule such
		// code (the instrumented engine rewrites locks and can); inconclusive, not a finding
		t.Probe("run_abandoned_task_blocked_outside_a_yield")
		stuckRuns++
		return
	}
	if k.AbortWhy != "" && !t.Failed() {
		if k.Deadlock {
			t.Violate("liveness", "deadlock", "", "readers deadlocked: %s", k.AbortWhy)
		} else {
			t.Violate("liveness", "budget", "", "epoch aborted: %s", k.AbortWhy)
		}
		return
	}
	if t.Failed() {
		return
	}
	// a result must stay what it was after the query returned (no aliasing of shared storage)
	for i := range held {
		for j := range held[i] {
			if !clobbered[i][j] && !held[i][j].SameAs(want[i][j]) {
				t.Violate("result-stable", qt.QueryNames[b.Plan[i][j].Kind], "", "reader%d: the slice returned by %v changed after the query had returned it: now %v, was %v", i, b.Plan[i][j], held[i][j], want[i][j])
				return
			}
		}
	}
	if after, _ := qt.Image(b.Tree); after != before {
		t.Violate("tree-image", "after-queries", "", "the tree object graph differs after the read epoch")
		return
	}
	if msg := b.Model.CheckContents(b.Tree); msg != "" {
		t.Violate("contents", "after-queries", "", "after the read epoch: %s", msg)
		return
	}
	bucket := 0
	for n := nodes; n > 0; n /= 2 {
		bucket++
	}
	t.State(fmt.Sprintf("%d/%d/%d/%d", bucket, len(b.Plan), k.Strategy, total))
}

// RunRace runs the same seeded workload with real goroutines released from a
// barrier, for the race detector (the binary is built with -race and
// GORACE=halt_on_error=1: a report kills the worker, the orchestrator
// attributes it through the journal). Results are still compared with the
// sequential answers. This engine is runtime monitoring, not simulation: the
// interleaving is the Go runtime's.
func RunRace(t *core.T) {
	b := Build(t)
	t.Logf("tree: %d live pointers; %d goroutines", len(b.Model.Live), len(b.Plan))
	before, _ := qt.Image(b.Tree)
	want := make([][]qt.Result, len(b.Plan))
	for i, qs := range b.Plan {
		want[i] = make([]qt.Result, len(qs))
		for j, q := range qs {
			q, i, j := q, i, j
			if t.Guard(qt.QueryNames[q.Kind], func() { want[i][j] = q.Exec(b.Twin).Clone() }) {
				return
			}
		}
	}
	type diff struct {
		i, j int
		got  qt.Result
		pi   *core.PanicInfo
	}
	diffs := make([][]diff, len(b.Plan))
	start := make(chan struct{})
	done := make(chan struct{})
	rounds := 3
	for i := range b.Plan {
		i := i
		go func() {
			defer func() { done <- struct{}{} }()
			<-start
			var prev []orb.Pointer
			for r := 0; r < rounds; r++ {
				for j, q := range b.Plan[i] {
					var got qt.Result
					if pi := core.Catch(func() { got = q.ExecBuf(b.Tree, prev) }); pi != nil {
						diffs[i] = append(diffs[i], diff{i: i, j: j, pi: pi})
						return
					}
					if !got.SameAs(want[i][j]) {
						diffs[i] = append(diffs[i], diff{i: i, j: j, got: got.Clone()})
					}
					if !got.IsOne && q.Win == nil {
						prev = got.Many
					}
				}
			}
		}()
	}
	close(start)
	for range b.Plan {
		<-done
	}
	t.Out.Switches = int64(len(b.Plan)) // real goroutines ran concurrently; the count of real switches is unknown
	for i := range b.Plan {
		for _, d := range diffs[i] {
			q := b.Plan[d.i][d.j]
			if d.pi != nil {
				t.Violate("no-panic", qt.QueryNames[q.Kind], d.pi.TopFunc, "goroutine %d: %v panicked: %s\n%s", d.i, q, d.pi.Value, d.pi.Stack)
			} else {
				t.Violate("same-as-alone", qt.QueryNames[q.Kind], "", "goroutine %d: %v returned %v concurrently, %v alone", d.i, q, d.got, want[d.i][d.j])
			}
		}
		for j, q := range b.Plan[i] {
			t.Logf("g%d: %v -> %v", i, q, want[i][j])
			t.Op()
		}
	}
	if after, _ := qt.Image(b.Tree); after != before {
		t.Violate("tree-image", "after-queries", "", "the tree object graph differs after the concurrent read epoch")
	}
	if msg := b.Model.CheckContents(b.Tree); msg != "" {
		t.Violate("contents", "after-queries", "", "after the concurrent read epoch: %s", msg)
	}
}
