// Package c14: tile covers and merging. MergeUp/MergeUpPartial range over the
// map they mutate: under the map seam the iteration behaviour is a drawn choice.
package c14

import (
	"fmt"
	"github.com/paulmach/orb/verifrt"
	"math"
	"sort"
	"strings"
	"time"

	"github.com/paulmach/orb"
	"github.com/paulmach/orb/maptile"
	"github.com/paulmach/orb/maptile/tilecover"

	"verif/sim/core"
	"verif/sim/mapseam"
	"verif/sim/props"
)

func init() {
	props.Register(&props.Property{
		ID:    "C14",
		Level: "exploration",
		Rule: "engine 'merge' (instrumented copy; map ranges in tilecover and maptile driven by the choice stream): a generated same-zoom tile set (real covers of generated shapes, and block-structured " +
			"sets that make complete and nearly complete sibling quads frequent) x target zoom <= set zoom is merged under 2-4 drawn iteration behaviours (order policy x whether keys created during the loop are produced) " +
			"on fresh copies: results must be identical and satisfy the merge invariants in exact integer tile arithmetic. engine 'merge-plain': the same on the unmodified package under the runtime's own map order (uncontrolled). " +
			"engine 'cover': point/line/polygon/collection covers of generated shapes (built in tile-fraction space at zoom 0-22: sub-tile, thin, multi-hundred-tile; star polygons with a hole) against sampled geometric oracles with 1e-6-tile guards; vertex-less geometries cover nothing; nested collections; a third of the runs compute further covers and empty returned sets (a cover belongs to the caller). " +
			"A quarter of the merge runs first merge an unrelated set; sync.Pool hand-backs are choices of the run in the instrumented engine. " +
			"Distinct = distinct event-log digest; non-trivial = a map-order choice was made or at least 3 geometric checks ran.",
		StateDef: "distinct (engine, zoom, shape class, tile-count bucket, min zoom distance, count, behaviour set) tuples",
		Engines: []props.Engine{
			{Name: "merge", Variant: "instr", Run: RunMerge, QuickRuns: 200000, Share: 0.45, MinThorough: 1500000, RunTimeout: 120 * time.Second},
			{Name: "merge-plain", Variant: "plain", Run: RunMerge, QuickRuns: 60000, Share: 0.1, MinThorough: 400000, RunTimeout: 120 * time.Second},
			{Name: "cover", Variant: "plain", Run: RunCover, QuickRuns: 200000, Share: 0.45, MinThorough: 1500000, RunTimeout: 120 * time.Second},
		},
		Real:  []string{"maptile", "maptile/tilecover", "internal/mercator"},
		Stub:  []string{},
		Instr: []string{"maptile/tilecover (map ranges, engine merge)", "maptile (map ranges, engine merge)"},
		Assumptions: []string{
			"merge inputs hold tiles of one zoom, all marked true, and min <= that zoom (quantifier)",
			"MergeUpPartial with count < 4 adds area by design: only cover-of-input, disjointness, min zoom and order-independence are required of it",
			"cover oracles work in tile-fraction space with a 1e-6 tile guard around tile edges and shape boundaries; shapes have positive length/area and vertices strictly inside lon (-180,180), lat (-85,85)",
		},
		NonTrivial: props.DefaultNonTrivial,
	})
}

// ---------------------------------------------------------------- tile arithmetic (exact, integer)

func ancestorAt(t maptile.Tile, z maptile.Zoom) maptile.Tile {
	d := uint32(t.Z - z)
	return maptile.Tile{X: t.X >> d, Y: t.Y >> d, Z: z}
}

func sortedTiles(s maptile.Set, onlyTrue bool) []maptile.Tile {
	out := make([]maptile.Tile, 0, len(s))
	for t, v := range s { // sorted below: the harness never depends on map order
		if v || !onlyTrue {
			out = append(out, t)
		}
	}
	sort.Slice(out, func(i, j int) bool {
		a, b := out[i], out[j]
		if a.Z != b.Z {
			return a.Z < b.Z
		}
		if a.X != b.X {
			return a.X < b.X
		}
		return a.Y < b.Y
	})
	return out
}

func copySet(s maptile.Set) maptile.Set {
	c := make(maptile.Set, len(s))
	for t, v := range s {
		c[t] = v
	}
	return c
}

func setSig(ts []maptile.Tile) uint64 {
	h := uint64(len(ts))
	for _, t := range ts {
		h = core.Mix(h, uint64(t.X)<<32|uint64(t.Y))
		h = core.Mix(h, uint64(t.Z))
	}
	return h
}

// checkMerged verifies the merge invariants; strict = MergeUp semantics (area preserved, no complete quad left).
func checkMerged(in []maptile.Tile, zmax, min maptile.Zoom, out maptile.Set, strict bool) string {
	ts := sortedTiles(out, true) // (a key marked false is not in the set)
	for _, t := range ts {
		if t.Z < min {
			return fmt.Sprintf("output tile %v is shallower than the requested zoom %d", t, min)
		}
		if t.Z > zmax {
			return fmt.Sprintf("output tile %v is deeper than the input zoom %d", t, zmax)
		}
	}
	// disjoint: no output tile has a proper ancestor in the output
	for _, t := range ts {
		if !strict {
			break
		}
		for z := min; z < t.Z; z++ {
			if out[ancestorAt(t, z)] {
				return fmt.Sprintf("output tiles overlap: %v and its ancestor %v", t, ancestorAt(t, z))
			}
		}
	}
	// covers the input
	for _, t := range in {
		n := 0
		for z := min; z <= t.Z; z++ {
			if out[ancestorAt(t, z)] {
				n++
			}
		}
		if n == 0 || (strict && n != 1) {
			return fmt.Sprintf("input tile %v has %d ancestors-or-self in the output, want exactly 1", t, n)
		}
	}
	if !strict {
		// MergeUpPartial with count < 4 adds area by design (a parent created from
		// some of its children can swallow tiles emitted earlier): only coverage
		// of the input, the zoom bounds and order-independence are required.
		return ""
	}
	// same area: sum of 4^(zmax-z) equals the input size
	var area uint64
	for _, t := range ts {
		area += uint64(1) << (2 * uint(zmax-t.Z))
	}
	if area != uint64(len(in)) {
		return fmt.Sprintf("output covers %d zoom-%d tiles, the input has %d", area, zmax, len(in))
	}
	// no complete sibling quad left above min
	for _, t := range ts {
		if t.Z <= min {
			continue
		}
		p := maptile.Tile{X: t.X >> 1, Y: t.Y >> 1, Z: t.Z - 1}
		all := true
		for dx := uint32(0); dx < 2; dx++ {
			for dy := uint32(0); dy < 2; dy++ {
				if !out[maptile.Tile{X: p.X<<1 + dx, Y: p.Y<<1 + dy, Z: t.Z}] {
					all = false
				}
			}
		}
		if all {
			return fmt.Sprintf("the four children of %v are all in the output above the requested zoom %d: a complete sibling quad was left unmerged", p, min)
		}
	}
	return ""
}

// drawSet draws a same-zoom tile set.
func drawSet(t *core.T) (set maptile.Set, z maptile.Zoom, class string) {
	return drawSetSized(t, false)
}

// drawSetSized: big forces a block of 32x32 or 64x64 tiles (hundreds to thousands of tiles).
func drawSetSized(t *core.T, big bool) (set maptile.Set, z maptile.Zoom, class string) {
	s := t.Src
	kind := s.Pick([]int{3, 2}, "setkind")
	if big {
		kind = 0
	}
	switch kind {
	case 0:
		// block structured: inside one ancestor block, fill some sub-blocks completely, sprinkle the rest
		z = maptile.Zoom(s.Range(1, 12, "zoom"))
		depth := s.Range(1, 4, "depth") // block is 2^depth x 2^depth tiles
		if s.Chance(1, 30, "bigblock") || big {
			depth = 5 + s.Intn(2, "d56") // up to 64x64 = 4096 tiles, six merge levels
			if big && z < maptile.Zoom(depth) {
				z = maptile.Zoom(depth + s.Intn(4, "zup"))
			}
		}
		if maptile.Zoom(depth) > z {
			depth = int(z)
		}
		side := uint32(1) << uint(depth)
		nblocks := uint32(1) << uint(int(z)-depth)
		bx, by := uint32(s.Intn(int(nblocks), "bx")), uint32(s.Intn(int(nblocks), "by"))
		set = make(maptile.Set)
		density := []int{1, 2, 3, 4}[s.Intn(4, "density")]
		var fill func(x, y, size uint32)
		fill = func(x, y, size uint32) {
			if size == 1 {
				if s.Chance(density, 5, "tile") {
					set[maptile.Tile{X: x, Y: y, Z: z}] = true
				}
				return
			}
			switch s.Pick([]int{3, 2, 1}, "block") {
			case 1: // completely filled
				for i := x; i < x+size; i++ {
					for j := y; j < y+size; j++ {
						set[maptile.Tile{X: i, Y: j, Z: z}] = true
					}
				}
			case 2: // empty
			default:
				h := size / 2
				fill(x, y, h)
				fill(x+h, y, h)
				fill(x, y+h, h)
				fill(x+h, y+h, h)
			}
		}
		fill(bx*side, by*side, side)
		return set, z, "blocks"
	default:
		// a real cover of a generated shape
		z = maptile.Zoom(s.Range(0, 14, "zoom"))
		sh := drawShape(s, z, true)
		var err error
		set, err = tilecover.Geometry(sh.geom, z)
		if err != nil {
			set = make(maptile.Set)
		}
		return set, z, "cover-" + sh.class
	}
}

// RunMerge: merge under several map-iteration behaviours.
func RunMerge(t *core.T) {
	s := t.Src
	set, z, class := drawSet(t)
	if s.Chance(1, 6, "false-entries") {
		// tiles the caller took out of the set by marking them false instead of deleting the key:
		// not part of the cover (holes in otherwise complete quads included)
		class += "+false"
		keys := sortedTiles(set, true)
		for _, tl := range keys {
			if s.Chance(1, 6, "unmark") {
				set[tl] = false
			}
		}
	}
	in := sortedTiles(set, true)
	min := maptile.Zoom(0)
	if z > 0 {
		min = z - maptile.Zoom(s.Pick([]int{1, 3, 3, 2, 1, 1, 1}, "mindist"))
		if min > z { // wrapped below zero
			min = 0
		}
	}
	count := 4
	partial := s.Chance(2, 5, "partial")
	if partial {
		count = 1 + s.Intn(4, "count")
	}
	t.Logf("%d tiles at zoom %d (%s), min %d, partial=%v count=%d; first tiles %v", len(in), z, class, min, partial, count, head(in, 6))
	instr := props.Variant == "instr"
	prior := s.Chance(1, 4, "prior")
	if instr {
		// whether a sync.Pool hands back a pooled object is a choice of the run, not of the Go runtime
		verifrt.ResetPools()
		verifrt.PoolHook = func(n int) bool { return !s.Chance(1, 4, "pool-fresh") }
		defer func() { verifrt.PoolHook = nil }()
	}
	if prior {
		// history: an earlier merge of an unrelated set in the same process (as large as this
		// one when this one is large) must leave nothing behind that the next call can see
		s.Begin("prior")
		pset, pz, _ := drawSetSized(t, len(in) >= 200)
		pin := sortedTiles(pset, true)
		pmin := maptile.Zoom(0)
		if pz > 0 {
			pmin = pz - maptile.Zoom(s.Pick([]int{1, 2, 2, 2, 2, 2, 2}, "pmindist"))
			if pmin > pz {
				pmin = 0
			}
		}
		s.End()
		var pout maptile.Set
		if t.Guard("tilecover.MergeUp", func() { pout = tilecover.MergeUp(pset, pmin) }) {
			return
		}
		t.Logf("prior merge: %d tiles at zoom %d to min %d -> %d tiles", len(pin), pz, pmin, len(pout))
		if msg := checkMerged(pin, pz, pmin, pout, true); msg != "" {
			t.Violate("merge-invariant", "tilecover.MergeUp", "", "MergeUp of %d zoom-%d tiles to min %d: %s\n  input: %v", len(pin), pz, pmin, msg, head(pin, 40))
			return
		}
	}
	nb := 2 + s.Intn(3, "behaviours")
	var first []maptile.Tile
	var firstDesc string
	bs := ""
	for b := 0; b < nb; b++ {
		s.Begin("behaviour")
		h := &mapseam.Hook{T: t, Policy: s.Intn(mapseam.NumPolicies, "policy"), NewKeys: s.Intn(3, "newkeys")}
		s.End()
		desc := fmt.Sprintf("order=%s new-keys=%d", mapseam.PolicyNames[h.Policy], h.NewKeys)
		if !instr {
			desc = "runtime order"
		}
		bs += fmt.Sprintf("%d.%d,", h.Policy, h.NewKeys)
		work := copySet(set)
		var out maptile.Set
		api := "tilecover.MergeUp"
		if partial {
			api = "tilecover.MergeUpPartial"
		}
		run := func() {
			if t.Guard(api, func() {
				if partial {
					out = tilecover.MergeUpPartial(work, min, count)
				} else {
					out = tilecover.MergeUp(work, min)
				}
			}) {
				out = nil
			}
		}
		if instr {
			mapseam.With(h, run)
		} else {
			run()
		}
		if out == nil {
			return
		}
		res := sortedTiles(out, true)
		t.Logf("behaviour %s -> %d tiles (sig %016x)", desc, len(res), setSig(res))
		if msg := checkMerged(in, z, min, out, !partial || count == 4); msg != "" {
			t.Violate("merge-invariant", api, "", "%s of %d zoom-%d tiles to min %d (count %d) under %s: %s\n  input: %v\n  output: %v", api, len(in), z, min, count, desc, msg, head(in, 40), head(res, 40))
			return
		}
		if b == 0 {
			first, firstDesc = res, desc
		} else if !sameTiles(first, res) {
			t.Violate("merge-order-dependent", api, "", "%s of the same %d tiles gives different results under different map iteration behaviours:\n  %s: %v\n  %s: %v\n  input: %v", api, len(in), firstDesc, head(first, 40), desc, head(res, 40), head(in, 40))
			return
		}
		t.Op()
	}
	zb := 0
	for n := len(in); n > 0; n /= 4 {
		zb++
	}
	t.State(fmt.Sprintf("merge/%s/%d/%d/%d/%d/%s", class, z, zb, z-min, count, bs))
}

func sameTiles(a, b []maptile.Tile) bool {
	if len(a) != len(b) {
		return false
	}
	for i := range a {
		if a[i] != b[i] {
			return false
		}
	}
	return true
}

func head(ts []maptile.Tile, n int) string {
	if len(ts) <= n {
		return fmt.Sprint(ts)
	}
	return fmt.Sprintf("%v… (%d tiles)", ts[:n], len(ts))
}

// ---------------------------------------------------------------- shapes in tile-fraction space

type pt [2]float64 // tile-fraction coordinates at the run's zoom

type shape struct {
	class string
	geom  orb.Geometry
	lines [][]pt   // open paths (line strings)
	rings [][][]pt // polygons: each a list of rings (first = outer)
	pts   []pt
}

func toLonLat(p pt, z maptile.Zoom) orb.Point {
	n := math.Exp2(float64(z))
	lon := p[0]/n*360 - 180
	lat := math.Atan(math.Sinh(math.Pi*(1-2*p[1]/n))) * 180 / math.Pi
	return orb.Point{lon, lat}
}

// frac recomputes the tile fraction of a lon/lat point (the oracle's own projection).
func frac(ll orb.Point, z maptile.Zoom) pt {
	n := math.Exp2(float64(z))
	x := (ll[0] + 180) / 360 * n
	s := math.Sin(ll[1] * math.Pi / 180)
	y := (0.5 - math.Log((1+s)/(1-s))/(4*math.Pi)) * n
	return pt{x, y}
}

func drawCenter(s *core.Source, z maptile.Zoom, r float64) pt {
	n := math.Exp2(float64(z))
	if s.Chance(1, 12, "polar") && r < 0.1*n {
		// right up to the edge of the quantifier's domain: the northern- or southernmost
		// vertex ends up at a latitude in (84.99, 85) (fraction 0.001625n .. 0.001723n from the pole)
		u := float64(s.Intn(1<<20, "cx")) / (1 << 20)
		edge := (0.001628 + 0.00009*float64(s.Intn(1000, "edge"))/1000) * n
		x := 0.02*n + r + u*(0.96*n-2*r)
		if s.Bool("south") {
			return pt{x, n - edge - r}
		}
		return pt{x, edge + r}
	}
	lo, hi := 0.02*n+r, 0.98*n-r
	if hi <= lo {
		return pt{n / 2, n / 2}
	}
	u := float64(s.Intn(1<<20, "cx")) / (1 << 20)
	v := float64(s.Intn(1<<20, "cy")) / (1 << 20)
	c := pt{lo + u*(hi-lo), lo + v*(hi-lo)}
	if s.Chance(1, 4, "oncorner") {
		// exactly on a tile corner / edge: the DDA's tie cases (only while the
		// shape stays inside the valid range: out-of-range vertices are rejected, never clamped)
		if f := math.Floor(c[0]); f >= lo {
			c[0] = f
		}
		if f := math.Floor(c[1]); f >= lo && s.Bool("both") {
			c[1] = f
		}
	}
	return c
}

func drawRadius(s *core.Source, z maptile.Zoom) (float64, string) {
	n := math.Exp2(float64(z))
	var r float64
	var class string
	switch s.Pick([]int{3, 3, 2, 1}, "size") {
	case 3:
		// far smaller than a tile (centimetres at zoom 0): still of positive length / area
		r, class = math.Pow(10, -float64(3+s.Intn(7, "rexp"))), "micro"
		if min := n * 1e-9; r < min {
			r = min // keep the vertices distinct after the round trip through lon/lat (positive length and area)
		}
	case 0:
		r, class = 0.02+float64(s.Intn(48, "r"))/100, "subtile"
	case 1:
		r, class = 0.5+float64(s.Intn(45, "r"))/10, "tiles"
	default:
		r, class = 5+float64(s.Intn(70, "r"))/10, "many"
		if s.Chance(1, 12, "huge") {
			r, class = 20+float64(s.Intn(200, "r"))/10, "huge" // thousands of tiles
		}
	}
	if r > 0.45*n {
		r = 0.45 * n
	}
	return r, class
}

func star(s *core.Source, c pt, rmin, rmax float64, nv int, thin bool) []pt {
	out := make([]pt, 0, nv+1)
	for i := 0; i < nv; i++ {
		a := (float64(i) + 0.5*float64(s.Intn(1000, "ang"))/1000) / float64(nv) * 2 * math.Pi
		r := rmin + (rmax-rmin)*float64(s.Intn(1000, "rad"))/1000
		x, y := c[0]+r*math.Cos(a), c[1]+r*math.Sin(a)
		if thin {
			y = c[1] + (y-c[1])*0.02
		}
		out = append(out, pt{x, y})
	}
	return append(out, out[0])
}

// emptyGeoms: geometries without a single vertex; their cover is no tile at all.
// (A polygon holding an empty ring is left out: tilecover indexes ring[0] - outside what C14 states.)
var emptyGeoms = []orb.Geometry{orb.LineString{}, orb.MultiLineString{}, orb.MultiLineString{orb.LineString{}}, orb.Polygon{}, orb.MultiPoint{},
	orb.Ring{}, orb.MultiPolygon{}, orb.MultiPolygon{orb.Polygon{}}, orb.Collection{}, orb.Collection{orb.Collection{}, orb.LineString{}}, orb.LineString(nil), orb.Polygon(nil)}

func drawShape(s *core.Source, z maptile.Zoom, areaOnly bool) *shape {
	sh := &shape{}
	if !areaOnly && s.Chance(1, 50, "empty") {
		sh.geom = emptyGeoms[s.Intn(len(emptyGeoms), "which")]
		sh.class = fmt.Sprintf("empty/%T", sh.geom)
		return sh
	}
	r, size := drawRadius(s, z)
	c := drawCenter(s, z, r)
	kinds := []int{1, 3, 4, 1}
	if areaOnly {
		kinds = []int{0, 2, 4, 0}
	}
	n := math.Exp2(float64(z))
	conv := func(ps []pt) []orb.Point {
		out := make([]orb.Point, len(ps))
		for i, p := range ps {
			// the quantifier's domain: lon in (-180,180), lat in (-85,85)
			if p[0] <= 0.001*n || p[0] >= 0.999*n || p[1] <= 0.001626*n || p[1] >= (1-0.001626)*n { // |lat| < 85
				panic(fmt.Sprintf("c14 generator produced an out-of-range vertex %v at zoom %d", p, z))
			}
			out[i] = toLonLat(p, z)
		}
		return out
	}
	switch s.Pick(kinds, "shape") {
	case 0:
		sh.class = "point/" + size
		sh.geom = toLonLat(c, z)
		if s.Chance(1, 3, "multi") {
			sh.class = "multipoint/" + size
			mp := orb.MultiPoint{toLonLat(c, z)}
			s.Repeat(0, 2, 4, "mpt", func(int) {
				mp = append(mp, conv([]pt{{c[0] + r*(float64(s.Intn(2001, "dx"))/1000-1), c[1] + r*(float64(s.Intn(2001, "dy"))/1000-1)}})[0])
			})
			sh.geom = mp
		}
	case 1:
		sh.class = "line/" + size
		drawLine := func() orb.LineString {
			var ps []pt
			nv := s.Range(2, 7, "nv")
			for i := 0; i < nv; i++ {
				ps = append(ps, pt{c[0] + r*(float64(s.Intn(2001, "dx"))/1000-1), c[1] + r*(float64(s.Intn(2001, "dy"))/1000-1)})
			}
			if s.Chance(1, 4, "snap") { // vertices (nearly) on tile corners: the DDA's tie cases
				for i := range ps {
					if fx, fy := math.Floor(ps[i][0]), math.Floor(ps[i][1]); fx > 0.02*n && fy > 0.02*n {
						ps[i] = pt{fx, fy}
					}
				}
			}
			if s.Chance(1, 5, "axis") { // axis-parallel segment through tile corners
				ps[1][1] = ps[0][1]
			}
			if ps[0] == ps[1] { // positive length, staying within r of the centre
				ps[1][0] = c[0] + r/2
				if ps[0][0] == ps[1][0] {
					ps[1][0] = c[0] - r/2
				}
			}
			return orb.LineString(conv(ps))
		}
		linekinds := []int{5, 2, 2, 0}
		if z <= 12 {
			linekinds[3] = 2
		}
		switch s.Pick(linekinds, "linekind") {
		case 3:
			// vertices exactly collinear and equally spaced in lon/lat (multiples of 1/8 degree): straight on a
			// plate carree map, a curve in mercator space, so the middle vertices matter
			sh.class = "lonlat-collinear-line/" + size
			p0 := toLonLat(c, z)
			snap := func(v float64) float64 { return math.Round(v*8) / 8 }
			k := s.Range(3, 6, "k")
			tile := 360 / n // degrees of longitude per tile
			step := func(label string) float64 {
				d := snap(r * tile * (0.2 + float64(s.Intn(100, label))/100) / float64(k-1))
				if d < 0.125 {
					d = 0.125
				}
				if s.Bool(label + "neg") {
					d = -d
				}
				return d
			}
			dx, dy := step("dlon"), step("dlat")
			x0, y0 := snap(p0[0]), snap(p0[1])
			// stay inside lon (-179,179), lat (-84,84)
			if x0+float64(k-1)*dx > 179 || x0+float64(k-1)*dx < -179 {
				dx = -dx
			}
			if y0+float64(k-1)*dy > 84 || y0+float64(k-1)*dy < -84 {
				dy = -dy
			}
			ls := orb.LineString{}
			for i := 0; i < k; i++ {
				ls = append(ls, orb.Point{x0 + float64(i)*dx, y0 + float64(i)*dy})
			}
			ok := true
			for _, p := range ls {
				if p[0] <= -179.5 || p[0] >= 179.5 || p[1] <= -84.5 || p[1] >= 84.5 {
					ok = false
				}
			}
			if !ok {
				sh.class = "line/" + size
				sh.geom = drawLine()
			} else {
				sh.geom = ls
			}
		case 0:
			sh.geom = drawLine()
		case 1:
			sh.class = "multiline/" + size
			ml := orb.MultiLineString{drawLine()}
			s.Repeat(0, 1, 3, "ml", func(int) { ml = append(ml, drawLine()) })
			sh.geom = ml
		default:
			// a segment symmetric about the world centre (a tile corner at every zoom >= 1):
			// it crosses tile corners exactly, in any of the four diagonal directions
			sh.class = "centre-symmetric-line/" + size
			// half-length 1/4 .. 40 tiles at this zoom (the cover stays small at every zoom)
			lon := float64(1+s.Intn(160, "lonk")) / 4 * 360 / n
			if lon > 170 {
				lon = 170
			}
			if s.Bool("west") {
				lon = -lon
			}
			lat := math.Atan(math.Sinh(2*math.Pi*float64(1+s.Intn(160, "latk"))/4/n)) * 180 / math.Pi
			if s.Bool("south") {
				lat = -lat
			}
			if s.Bool("diag") {
				// make |dx| == |dy| in tile space: choose lat so that the y offset equals the x offset
				off := lon / 360 // fraction of the world
				lat = math.Atan(math.Sinh(2*math.Pi*math.Abs(off))) * 180 / math.Pi
				if s.Bool("south2") {
					lat = -lat
				}
			}
			if lat > 84 {
				lat = 84
			}
			if lat < -84 {
				lat = -84
			}
			sh.geom = orb.LineString{{lon, lat}, {-lon, -lat}}
		}
	case 2:
		sh.class = "polygon/" + size
		thin := s.Chance(1, 5, "thin") && size != "micro"
		if thin {
			sh.class = "thinpolygon/" + size
		}
		drawPoly := func(c pt) orb.Polygon {
			outer := star(s, c, r/2, r, s.Range(6, 12, "nv"), thin)
			op := orb.Polygon{orb.Ring(conv(outer))}
			if !thin && s.Chance(1, 2, "hole") {
				hole := star(s, c, r/10, r/4, s.Range(6, 9, "nv"), false)
				for i, j := 1, len(hole)-2; i < j; i, j = i+1, j-1 { // clockwise
					hole[i], hole[j] = hole[j], hole[i]
				}
				op = append(op, orb.Ring(conv(hole)))
				sh.class += "+hole"
			}
			return op
		}
		switch s.Pick([]int{5, 1, 2, 2, 2}, "polykind") {
		case 4:
			// a rectangle symmetric about the world centre whose vertical edges lie exactly on
			// tile boundaries (longitudes that are whole tiles) - the fill's tie cases
			sh.class = "gridrect/" + size
			kx := 1 + s.Intn(12, "kx")
			lon := float64(kx) * 360 / n
			if lon > 170 || z == 0 {
				lon = 170
			}
			lat := math.Atan(math.Sinh(2*math.Pi*float64(1+s.Intn(48, "ky"))/4/n)) * 180 / math.Pi
			if lat > 84 {
				lat = 84
			}
			sh.geom = orb.Polygon{orb.Ring{{-lon, -lat}, {lon, -lat}, {lon, lat}, {-lon, lat}, {-lon, -lat}}}
		case 0:
			sh.geom = drawPoly(c)
		case 1:
			sh.class = "ring/" + size
			sh.geom = drawPoly(c)[0]
		case 2:
			sh.class = "multipolygon/" + size
			if !thin && s.Chance(1, 3, "island") {
				// a lake with an island that almost fills it: the island's outline runs through tiles
				// the lake shore has already marked, its inside does not
				sh.class = "multipolygon-island/" + size
				outer := star(s, c, r/2, r, s.Range(6, 12, "nv"), false)
				shore := star(s, c, r/6, r/3, s.Range(6, 9, "nv"), false)
				f := []float64{0.9, 0.97, 0.995, 0.9999}[s.Intn(4, "fill")]
				island := make([]pt, len(shore))
				for i, p := range shore {
					island[i] = pt{c[0] + (p[0]-c[0])*f, c[1] + (p[1]-c[1])*f}
				}
				hole := append([]pt{}, shore...)
				for i, j := 1, len(hole)-2; i < j; i, j = i+1, j-1 { // clockwise
					hole[i], hole[j] = hole[j], hole[i]
				}
				sh.geom = orb.MultiPolygon{{orb.Ring(conv(outer)), orb.Ring(conv(hole))}, {orb.Ring(conv(island))}}
				break
			}
			c2 := drawCenter(s, z, r)
			sh.geom = orb.MultiPolygon{drawPoly(c), drawPoly(c2)}
		default:
			sh.class = "bound/" + size
			w, h := r*(0.05+0.9*float64(s.Intn(100, "bw"))/100), r*(0.05+0.9*float64(s.Intn(100, "bh"))/100)
			lo := conv([]pt{{c[0] - w, c[1] + h}})[0] // south-west: larger y is further south
			hi := conv([]pt{{c[0] + w, c[1] - h}})[0]
			sh.geom = orb.Bound{Min: lo, Max: hi}
		}
	default:
		sh.class = "collection/" + size
		a := drawShape(s, z, false)
		b := drawShape(s, z, false)
		for _, m := range []*shape{a, b} {
			if _, ok := m.geom.(orb.Collection); ok && s.Bool("flatten") {
				m.geom = orb.Collection{} // half of the nested collections are kept, half become empty ones
			}
		}
		col := orb.Collection{a.geom, b.geom}
		if s.Chance(1, 4, "emptymember") {
			// a member without vertices, anywhere in the list
			at := s.Intn(3, "at")
			e := emptyGeoms[s.Intn(len(emptyGeoms), "which")]
			col = append(col[:at], append(orb.Collection{e}, col[at:]...)...)
		}
		if s.Chance(1, 5, "manymembers") {
			// a dozen direct members
			s.Repeat(5, 8, 12, "member", func(int) {
				m := drawShape(s, z, false)
				if _, ok := m.geom.(orb.Collection); ok {
					m.geom = orb.Point(toLonLat(c, z))
				}
				col = append(col, m.geom)
			})
		}
		sh.geom = col
	}
	return sh
}

// parts derives, from the lon/lat geometry handed to orb, the oracle's own
// tile-fraction view of it (its own projection formula).
func (sh *shape) parts(g orb.Geometry, z maptile.Zoom) {
	fr := func(ps []orb.Point) []pt {
		out := make([]pt, len(ps))
		for i, p := range ps {
			out[i] = frac(p, z)
		}
		return out
	}
	switch x := g.(type) {
	case orb.Point:
		sh.pts = append(sh.pts, frac(x, z))
	case orb.MultiPoint:
		sh.pts = append(sh.pts, fr(x)...)
	case orb.LineString:
		sh.lines = append(sh.lines, fr(x))
	case orb.MultiLineString:
		for _, l := range x {
			sh.lines = append(sh.lines, fr(l))
		}
	case orb.Ring:
		if len(x) > 0 {
			sh.rings = append(sh.rings, [][]pt{fr(x)})
		}
	case orb.Polygon:
		var poly [][]pt
		for _, r := range x {
			poly = append(poly, fr(r))
		}
		if len(poly) > 0 {
			sh.rings = append(sh.rings, poly)
		}
	case orb.MultiPolygon:
		for _, p := range x {
			sh.parts(p, z)
		}
	case orb.Bound:
		sh.rings = append(sh.rings, [][]pt{fr(x.ToRing())})
	case orb.Collection:
		for _, m := range x {
			sh.parts(m, z)
		}
	}
}

const guard = 1e-6

func tileOf(p pt) (uint32, uint32, bool) {
	fx, fy := math.Floor(p[0]), math.Floor(p[1])
	if p[0]-fx < guard || fx+1-p[0] < guard || p[1]-fy < guard || fy+1-p[1] < guard {
		return 0, 0, false // too close to a tile edge to call
	}
	return uint32(fx), uint32(fy), true
}

// crossings returns the sorted parameters in (0,1) at which segment a-b crosses an integer grid line.
func crossings(a, b pt) []float64 {
	ts := []float64{0, 1}
	for d := 0; d < 2; d++ {
		lo, hi := math.Min(a[d], b[d]), math.Max(a[d], b[d])
		if hi == lo {
			continue
		}
		for g := math.Ceil(lo); g <= hi; g++ {
			ts = append(ts, (g-a[d])/(b[d]-a[d]))
		}
	}
	sort.Float64s(ts)
	return ts
}

// segNearRect: does segment a-b come within eps of the rectangle [x,x+1]x[y,y+1]? (Liang-Barsky on the grown box)
func segNearRect(a, b pt, x, y, eps float64) bool {
	x0, x1, y0, y1 := x-eps, x+1+eps, y-eps, y+1+eps
	t0, t1 := 0.0, 1.0
	dx, dy := b[0]-a[0], b[1]-a[1]
	clip := func(p, q float64) bool {
		if p == 0 {
			return q >= 0
		}
		r := q / p
		if p < 0 {
			if r > t1 {
				return false
			}
			if r > t0 {
				t0 = r
			}
		} else {
			if r < t0 {
				return false
			}
			if r < t1 {
				t1 = r
			}
		}
		return true
	}
	return clip(-dx, a[0]-x0) && clip(dx, x1-a[0]) && clip(-dy, a[1]-y0) && clip(dy, y1-a[1])
}

func distToSeg(p, a, b pt) float64 {
	dx, dy := b[0]-a[0], b[1]-a[1]
	l2 := dx*dx + dy*dy
	t := 0.0
	if l2 > 0 {
		t = ((p[0]-a[0])*dx + (p[1]-a[1])*dy) / l2
		t = math.Max(0, math.Min(1, t))
	}
	ex, ey := a[0]+t*dx-p[0], a[1]+t*dy-p[1]
	return math.Hypot(ex, ey)
}

// insidePolygon: even-odd over all rings; ok=false when p is within guard of the boundary.
func insidePolygon(p pt, rings [][]pt) (in, ok bool) {
	for _, r := range rings {
		for i := 0; i+1 < len(r); i++ {
			if distToSeg(p, r[i], r[i+1]) < 4*guard {
				return false, false
			}
		}
	}
	for _, r := range rings {
		for i := 0; i+1 < len(r); i++ {
			a, b := r[i], r[i+1]
			if (a[1] > p[1]) != (b[1] > p[1]) {
				x := a[0] + (p[1]-a[1])/(b[1]-a[1])*(b[0]-a[0])
				if x > p[0] {
					in = !in
				}
			}
		}
	}
	return in, true
}

// RunCover: covers of generated shapes against sampled geometric oracles.
func RunCover(t *core.T) {
	s := t.Src
	z := maptile.Zoom(s.Pick([]int{1, 1, 1, 2, 2, 2, 2, 2, 2, 2, 2, 2, 2, 2, 2, 2, 2, 2, 2, 2, 2, 2, 2}, "zoom"))
	sh := drawShape(s, z, false)
	// the oracle's own fractions, recomputed from the lon/lat handed to orb
	sh.parts(sh.geom, z)
	t.Logf("zoom %d shape %s: %v", z, sh.class, sh.geom)
	var set maptile.Set
	var err error
	if t.Guard("tilecover.Geometry", func() { set, err = tilecover.Geometry(sh.geom, z) }) {
		return
	}
	if err != nil {
		t.Violate("cover-error", "tilecover.Geometry", "", "cover of a valid %s at zoom %d failed: %v\n  %v", sh.class, z, err, sh.geom)
		return
	}
	verify := func(set maptile.Set) bool {
		covered := func(x, y uint32) bool { return set[maptile.Tile{X: x, Y: y, Z: z}] }
		tiles := sortedTiles(set, false)
		for _, tl := range tiles {
			if tl.Z != z || !set[tl] {
				t.Violate("cover-tiles", "tilecover.Geometry", "", "cover holds %v (value %v) at zoom %d", tl, set[tl], z)
				return false
			}
		}
		t.State(fmt.Sprintf("cover/%d/%s/%d", z, sh.class, bucket(len(tiles))))
		checks := 0
		vertices := len(sh.pts)
		for _, l := range sh.lines {
			vertices += len(l)
		}
		for _, poly := range sh.rings {
			for _, r := range poly {
				vertices += len(r)
			}
		}
		if vertices == 0 {
			// nothing to cover: no vertex anywhere
			checks++
			if len(tiles) != 0 {
				t.Violate("cover-extra-tile", "tilecover.Geometry", "empty", "%s at zoom %d has no vertex at all, its cover holds %v", sh.class, z, head(tiles, 20))
				return false
			}
		}

		// points: the cover contains the point's tile
		for _, p := range sh.pts {
			if x, y, ok := tileOf(p); ok {
				checks++
				if !covered(x, y) {
					t.Violate("cover-point", "tilecover.Geometry", "", "point %v (fraction %v) lies in tile %d/%d/%d which is not in the cover %v", sh.geom, p, z, x, y, head(tiles, 20))
					return false
				}
			}
		}

		// every segment: the midpoint of every stretch between two grid crossings lies in a covered tile
		var segs [][2]pt
		addPath := func(ps []pt) {
			for i := 0; i+1 < len(ps); i++ {
				segs = append(segs, [2]pt{ps[i], ps[i+1]})
			}
		}
		for _, l := range sh.lines {
			addPath(l)
		}
		for _, poly := range sh.rings {
			for _, r := range poly {
				addPath(r)
			}
		}
		for _, sg := range segs {
			ts := crossings(sg[0], sg[1])
			for i := 0; i+1 < len(ts); i++ {
				if ts[i+1]-ts[i] <= 0 {
					continue
				}
				m := (ts[i] + ts[i+1]) / 2
				p := pt{sg[0][0] + m*(sg[1][0]-sg[0][0]), sg[0][1] + m*(sg[1][1]-sg[0][1])}
				if x, y, ok := tileOf(p); ok {
					checks++
					if !covered(x, y) {
						t.Violate("cover-missing-tile", "tilecover.Geometry", sh.class[:4], "%s at zoom %d: the segment %v-%v passes through tile %d/%d (at %v) which is not in the cover %v\n  %v", sh.class, z, sg[0], sg[1], x, y, p, head(tiles, 30), sh.geom)
						return false
					}
				}
			}
		}

		// polygons: samples strictly inside must be covered; no covered tile outside the tile-space bound
		if len(sh.rings) > 0 {
			minx, miny, maxx, maxy := math.Inf(1), math.Inf(1), math.Inf(-1), math.Inf(-1)
			for _, sg := range segs {
				for _, p := range sg {
					minx, miny = math.Min(minx, p[0]), math.Min(miny, p[1])
					maxx, maxy = math.Max(maxx, p[0]), math.Max(maxy, p[1])
				}
			}
			for _, p := range sh.pts {
				minx, miny = math.Min(minx, p[0]), math.Min(miny, p[1])
				maxx, maxy = math.Max(maxx, p[0]), math.Max(maxy, p[1])
			}
			for _, tl := range tiles {
				if float64(tl.X)+1 < minx-guard || float64(tl.X) > maxx+guard || float64(tl.Y)+1 < miny-guard || float64(tl.Y) > maxy+guard {
					t.Violate("cover-outside-bound", "tilecover.Geometry", "", "%s at zoom %d: covered tile %v lies outside the shape's tile-space bound [%g,%g]x[%g,%g]", sh.class, z, tl, minx, maxx, miny, maxy)
					return false
				}
			}
			for _, poly := range sh.rings {
				bx0, by0, bx1, by1 := math.Inf(1), math.Inf(1), math.Inf(-1), math.Inf(-1)
				for _, p := range poly[0] {
					bx0, by0 = math.Min(bx0, p[0]), math.Min(by0, p[1])
					bx1, by1 = math.Max(bx1, p[0]), math.Max(by1, p[1])
				}
				nx, ny := math.Floor(bx1)-math.Floor(bx0)+1, math.Floor(by1)-math.Floor(by0)+1
				if nx*ny > 6000 {
					continue
				}
				for x := math.Floor(bx0); x <= math.Floor(bx1); x++ {
					for y := math.Floor(by0); y <= math.Floor(by1); y++ {
						for k := 0; k < 3; k++ {
							var p pt
							if k == 0 {
								p = pt{x + 0.5, y + 0.5}
							} else {
								p = pt{x + 0.001 + 0.998*float64(s.Intn(1000, "sx"))/1000, y + 0.001 + 0.998*float64(s.Intn(1000, "sy"))/1000}
							}
							in, ok := insidePolygon(p, poly)
							if !ok || !in {
								continue
							}
							if tx, ty, ok := tileOf(p); ok {
								checks++
								if !covered(tx, ty) {
									t.Violate("cover-missing-interior", "tilecover.Geometry", "", "%s at zoom %d: %v is inside the polygon but its tile %d/%d is not in the cover %v\n  %v", sh.class, z, p, tx, ty, head(tiles, 30), sh.geom)
									return false
								}
							}
						}
					}
				}
			}
		} else if len(segs) > 0 {
			// lines: exactly the tiles the image passes through: every covered tile must be touched by some segment
			for _, tl := range tiles {
				near := false
				for _, p := range sh.pts { // a point member of a collection accounts for its tile
					if p[0] >= float64(tl.X)-guard && p[0] <= float64(tl.X)+1+guard && p[1] >= float64(tl.Y)-guard && p[1] <= float64(tl.Y)+1+guard {
						near = true
					}
				}
				for _, sg := range segs {
					if segNearRect(sg[0], sg[1], float64(tl.X), float64(tl.Y), guard) {
						near = true
						break
					}
				}
				checks++
				if !near {
					t.Violate("cover-extra-tile", "tilecover.Geometry", "", "%s at zoom %d: covered tile %v is not touched by any segment\n  %v", sh.class, z, tl, sh.geom)
					return false
				}
			}
		}
		for i := 0; i < checks && i < 3; i++ {
			t.Op()
		}
		t.ProbeN("geometric_checks", int64(checks))
		return true
	}
	if !verify(set) {
		return
	}

	// A cover belongs to the caller (MergeUp consumes the set it is given): computing
	// further covers must not change it, and emptying it must not change theirs.
	if t.Failed() || !s.Chance(1, 3, "again") {
		return
	}
	was := copySet(set)
	var second, other maptile.Set
	if t.Guard("tilecover.Geometry", func() {
		second, err = tilecover.Geometry(sh.geom, z)
		if z > 0 {
			other, _ = tilecover.Geometry(sh.geom, z-1)
		}
	}) {
		return
	}
	if !sameTiles(sortedTiles(set, false), sortedTiles(was, false)) {
		t.Violate("result-stable", "tilecover.Geometry", "", "%s at zoom %d: the cover returned first changed while later covers were computed: now %v, was %v", sh.class, z, head(sortedTiles(set, false), 20), head(sortedTiles(was, false), 20))
		return
	}
	was2 := copySet(second)
	for tl := range set {
		delete(set, tl)
	}
	set[maptile.Tile{X: 0, Y: 0, Z: z}] = false
	for tl := range other {
		delete(other, tl)
	}
	if !sameTiles(sortedTiles(second, false), sortedTiles(was2, false)) {
		t.Violate("result-aliased", "tilecover.Geometry", "", "%s at zoom %d: emptying one returned cover changed another: now %v, was %v", sh.class, z, head(sortedTiles(second, false), 20), head(sortedTiles(was2, false), 20))
		return
	}
	if strings.HasPrefix(sh.class, "point/") || strings.HasPrefix(sh.class, "multipoint/") || strings.Contains(sh.class, "line/") {
		// exact classes: the cover is a function of the geometry
		if !sameTiles(sortedTiles(second, false), sortedTiles(was, false)) {
			t.Violate("cover-repeatable", "tilecover.Geometry", "", "%s at zoom %d: the same geometry was covered by %v first and by %v the second time", sh.class, z, head(sortedTiles(was, false), 20), head(sortedTiles(second, false), 20))
			return
		}
	}
	var third maptile.Set
	if t.Guard("tilecover.Geometry", func() { third, err = tilecover.Geometry(sh.geom, z) }) {
		return
	}
	if strings.HasPrefix(sh.class, "point/") || strings.HasPrefix(sh.class, "multipoint/") || strings.Contains(sh.class, "line/") {
		if !sameTiles(sortedTiles(third, false), sortedTiles(was, false)) {
			t.Violate("cover-repeatable", "tilecover.Geometry", "", "%s at zoom %d: after the caller emptied earlier results the same geometry is covered by %v, at first by %v", sh.class, z, head(sortedTiles(third, false), 20), head(sortedTiles(was, false), 20))
		}
	} else {
		// area classes may legitimately differ in optional tiles: the later cover is judged by the same oracles
		verify(third)
	}
}

func bucket(n int) int {
	b := 0
	for ; n > 0; n /= 4 {
		b++
	}
	return b
}
