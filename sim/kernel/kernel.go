// Package kernel is the cooperative scheduler of the simulator: tasks are real
// goroutines, exactly one of which holds the baton; at every Yield the choice
// stream decides who runs next. Which goroutine proceeds is never left to the
// Go runtime, so one trace is one exactly repeatable interleaving.
package kernel

import (
	"fmt"
	"sync/atomic"
	"syscall"
	"time"

	"verif/sim/core"
)

const (
	stRunnable = iota
	stParked
	stDone
)

// Task is one simulated thread of control.
type Task struct {
	ID      int
	Name    string
	k       *Kernel
	run     chan struct{}
	state   int
	fn      func(t *Task)
	Steps   int64 // yields executed by this task
	OpSteps int64 // yields since the property last reset it (bounded liveness per operation)
	prio    int
	Panic   *core.PanicInfo
}

// SpinSite is the site reported by a rewritten Lock() retry (verifrt.SpinSite).
const SpinSite = -1000

type abortPanic struct{}

func (abortPanic) HarnessPanic() {}

// Strategy names.
const (
	Random     = iota // uniform among runnable tasks at every yield
	Sticky            // switch with probability 1/StickyDen
	PCT               // priorities with D change points
	RoundRobin        // quantum Q
	NumStrategies
)

var StrategyNames = [...]string{"random", "sticky", "pct", "roundrobin"}

// Kernel schedules tasks.
type Kernel struct {
	T         *core.T
	src       *core.Source
	tasks     []*Task
	cur       *Task
	done      chan struct{}
	aborting  bool
	AbortWhy  string
	Steps     int64
	MaxSteps  int64
	Strategy  int
	StickyDen int
	Quantum   int
	quantLeft int
	changeAt  []int64 // PCT priority-change steps
	lowPrio   int
	// OnStep runs at every scheduling point before the decision (invariants).
	OnStep func(cur *Task, site int)
	// Deadlock is set when no task was runnable while some were parked.
	Deadlock bool
	// Stuck is set when a task blocked outside the kernel's control (see Run).
	Stuck    bool
	progress int64
	started  bool
}

// New creates a kernel drawing its strategy from the choice stream.
func New(t *core.T, expectedSteps int64) *Kernel {
	s := t.Src
	k := &Kernel{T: t, src: s, done: make(chan struct{}), MaxSteps: 2_000_000}
	k.Strategy = s.Pick([]int{3, 3, 2, 1}, "strategy")
	switch k.Strategy {
	case Sticky:
		k.StickyDen = []int{2, 8, 64}[s.Intn(3, "stickyden")]
	case PCT:
		d := s.Range(1, 3, "pct-d")
		if expectedSteps < 4 {
			expectedSteps = 4
		}
		for i := 0; i < d; i++ {
			k.changeAt = append(k.changeAt, int64(s.Draw(uint64(expectedSteps), "pct-change")))
		}
	case RoundRobin:
		k.Quantum = s.Range(1, 12, "quantum")
		k.quantLeft = k.Quantum
	}
	t.Logf("kernel strategy=%s sticky=%d quantum=%d pct=%v", StrategyNames[k.Strategy], k.StickyDen, k.Quantum, k.changeAt)
	return k
}

// Go registers a task; tasks start when Run is called.
func (k *Kernel) Go(name string, fn func(t *Task)) *Task {
	t := &Task{ID: len(k.tasks), Name: name, k: k, run: make(chan struct{}, 1), fn: fn}
	k.tasks = append(k.tasks, t)
	return t
}

// Current returns the task holding the baton (nil outside Run).
func (k *Kernel) Current() *Task { return k.cur }

// Active reports whether tasks are running.
func (k *Kernel) Active() bool { return k.started && k.cur != nil }

// Run executes all tasks to completion (or abort) and returns.
func (k *Kernel) Run() {
	if len(k.tasks) == 0 {
		return
	}
	if k.Strategy == PCT {
		// random distinct priorities: higher runs first
		n := len(k.tasks)
		perm := make([]int, n)
		for i := range perm {
			perm[i] = i
		}
		for i := n - 1; i > 0; i-- {
			j := k.src.Intn(i+1, "prio")
			perm[i], perm[j] = perm[j], perm[i]
		}
		for i, t := range k.tasks {
			t.prio = perm[i] + 1
		}
		k.lowPrio = 0
	}
	for _, t := range k.tasks {
		t := t
		go func() {
			<-t.run
			func() {
				defer func() {
					if r := recover(); r != nil {
						if _, ok := r.(abortPanic); ok {
							return
						}
						if _, ok := r.(core.ErrTooManyDraws); ok {
							k.abort("draw budget exceeded")
							return
						}
						// a panic in task code outside a Guard
						pi := core.DescribePanic(r)
						t.Panic = pi
						k.T.Violate("no-panic", "task:"+t.Name, pi.Value, "task %s panicked: %s\n%s", t.Name, pi.Value, pi.Stack)
						k.abort("task panic")
					}
				}()
				if k.aborting {
					return
				}
				t.fn(t)
			}()
			t.state = stDone
			k.handoff(nil)
		}()
	}
	k.started = true
	first := k.pick(nil, 0)
	k.cur = first
	first.run <- struct{}{}
	// Wait for the tasks. A task that blocks on something the kernel does not
	// own (a real mutex held by a task parked at a yield, a channel) while it
	// holds the baton would stall everything: the code under test is then not
	// wrong, the uninstrumented seams are simply not enough to schedule it.
	// Such a run is abandoned as inconclusive (Stuck), never reported.
	tick := time.NewTicker(500 * time.Millisecond)
	defer tick.Stop()
	lastSteps, lastCPU, idle := int64(-1), processCPU(), 0
	for {
		select {
		case <-k.done:
			k.cur = nil
			k.started = false
			return
		case <-tick.C:
			steps := atomic.LoadInt64(&k.progress)
			cpu := processCPU()
			if steps == lastSteps && cpu-lastCPU < 20*time.Millisecond {
				idle++
			} else {
				idle = 0
			}
			lastSteps, lastCPU = steps, cpu
			if idle >= 10 { // 5 s without a scheduling event and without CPU use
				k.Stuck = true
				k.aborting = true
				k.cur = nil
				k.started = false
				return // the blocked goroutines are leaked; the caller discards this kernel
			}
		}
	}
}

func processCPU() time.Duration {
	var ru syscall.Rusage
	if syscall.Getrusage(syscall.RUSAGE_SELF, &ru) != nil {
		return 0
	}
	return time.Duration(ru.Utime.Nano() + ru.Stime.Nano())
}

func (k *Kernel) abort(why string) {
	if !k.aborting {
		k.aborting = true
		k.AbortWhy = why
	}
}

// Abort stops the simulation: every task unwinds at its next scheduling point.
func (k *Kernel) Abort(why string) { k.abort(why) }

func (k *Kernel) runnable() []*Task {
	var r []*Task
	for _, t := range k.tasks {
		if t.state == stRunnable {
			r = append(r, t)
		}
	}
	return r
}

// pick chooses the next task to run. cur is the yielding task (nil when it
// finished or parked). The draw 0 always means "stay on the current task"
// when that is possible, so shrinking removes context switches.
func (k *Kernel) pick(cur *Task, site int) *Task {
	r := k.runnable()
	if len(r) == 0 {
		return nil
	}
	if k.aborting {
		return r[0]
	}
	if len(r) == 1 {
		return r[0]
	}
	// order: current first, then by id
	if cur != nil && cur.state == stRunnable {
		for i, t := range r {
			if t == cur {
				copy(r[1:i+1], r[:i])
				r[0] = cur
				break
			}
		}
	}
	if site == SpinSite && cur != nil && cur.state == stRunnable {
		// the current task failed to take a lock: somebody else must run
		return r[1+k.src.Intn(len(r)-1, "spin-to")]
	}
	switch k.Strategy {
	case Random:
		return r[k.src.Intn(len(r), "sched")]
	case Sticky:
		if cur != nil && cur.state == stRunnable {
			if !k.src.Chance(1, k.StickyDen, "switch") {
				return cur
			}
			return r[1+k.src.Intn(len(r)-1, "to")]
		}
		return r[k.src.Intn(len(r), "to")]
	case PCT:
		for _, at := range k.changeAt {
			if at == k.Steps && cur != nil {
				k.T.Fault("pct_priority_change")
				k.lowPrio--
				cur.prio = k.lowPrio
			}
		}
		best := r[0]
		for _, t := range r[1:] {
			if t.prio > best.prio {
				best = t
			}
		}
		return best
	default: // RoundRobin
		if cur != nil && cur.state == stRunnable {
			k.quantLeft--
			if k.quantLeft > 0 {
				return cur
			}
		}
		k.quantLeft = k.Quantum
		// next id after cur, cyclically
		if cur == nil {
			return r[0]
		}
		best := (*Task)(nil)
		for _, t := range r {
			if t.ID > cur.ID && (best == nil || t.ID < best.ID) {
				best = t
			}
		}
		if best == nil {
			for _, t := range r {
				if t != cur && (best == nil || t.ID < best.ID) {
					best = t
				}
			}
		}
		if best == nil {
			return cur
		}
		return best
	}
}

// handoff passes the baton on from a task that finished (from == nil) or
// parked; it does not wait.
func (k *Kernel) handoff(from *Task) {
	atomic.AddInt64(&k.progress, 1)
	atomic.AddInt64(&core.Progress, 1)
	next := k.pick(nil, 0)
	if next == nil {
		// nobody runnable: finished, or deadlocked on parked tasks
		parked := false
		for _, t := range k.tasks {
			if t.state == stParked {
				parked = true
			}
		}
		if parked {
			if !k.aborting {
				k.Deadlock = true
				k.abort("deadlock: every remaining task is parked")
			}
			for _, t := range k.tasks {
				if t.state == stParked {
					t.state = stRunnable
				}
			}
			next = k.pick(nil, 0)
		}
	}
	if next == nil {
		k.done <- struct{}{}
		return
	}
	k.cur = next
	next.run <- struct{}{}
}

// Yield is a scheduling point of the current task.
func (k *Kernel) Yield(site int) {
	cur := k.cur
	if cur == nil {
		return
	}
	if k.aborting {
		panic(abortPanic{})
	}
	k.Steps++
	atomic.AddInt64(&k.progress, 1)
	atomic.AddInt64(&core.Progress, 1)
	cur.Steps++
	if site != SpinSite {
		cur.OpSteps++
	}
	if k.Steps > k.MaxSteps {
		k.abort(fmt.Sprintf("step budget %d exceeded", k.MaxSteps))
		panic(abortPanic{})
	}
	if k.OnStep != nil {
		k.OnStep(cur, site)
		if k.aborting {
			panic(abortPanic{})
		}
	}
	next := k.pick(cur, site)
	if next == cur {
		return
	}
	k.T.Out.Switches++
	k.T.Out.SchedHash = core.Mix(k.T.Out.SchedHash, uint64(cur.ID)<<48|uint64(next.ID)<<32|uint64(uint32(site)))
	k.T.Fault("context_switch")
	k.T.Out.Steps++
	k.T.Out.Digest = core.Mix(k.T.Out.Digest, uint64(cur.ID)<<48|uint64(next.ID)<<32|uint64(uint32(site)))
	if k.T.Keep {
		k.T.Note("switch %s -> %s at %s", cur.Name, next.Name, SiteName(site))
	}
	k.cur = next
	next.run <- struct{}{}
	<-cur.run
	if k.aborting {
		panic(abortPanic{})
	}
}

// SiteName renders a yield site.
func SiteName(site int) string {
	switch {
	case site == -1:
		return "Pointer.Point() callback"
	case site == -2:
		return "FilterFunc callback"
	case site == SpinSite:
		return "lock retry"
	case site <= -10:
		return fmt.Sprintf("io seam %d", -site)
	}
	return fmt.Sprintf("statement site %d", site)
}

// Park blocks the current task until another task wakes it.
func (k *Kernel) Park() {
	cur := k.cur
	if cur == nil {
		panic("kernel: Park outside a task")
	}
	if k.aborting {
		panic(abortPanic{})
	}
	k.Steps++
	cur.Steps++
	cur.state = stParked
	k.T.Event("park", uint64(cur.ID), 0)
	k.handoff(cur)
	<-cur.run
	if k.aborting {
		panic(abortPanic{})
	}
}

// Wake makes a parked task runnable again (it runs when the scheduler picks it).
func (k *Kernel) Wake(t *Task) {
	if t.state == stParked {
		t.state = stRunnable
		k.T.Event("wake", uint64(t.ID), 0)
	}
}

// Parked reports whether t is parked.
func (t *Task) Parked() bool { return t.state == stParked }
