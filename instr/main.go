// instr: source-to-source instrumentation of a throw-away copy of paulmach/orb.
//
//  1. statement yields: verifrt.Yield(site) before every statement of every
//     function body in the selected packages (purely syntactic, so it also
//     instruments whatever a future change adds);
//  2. lock rewrite: x.Lock()/RLock() on sync.Mutex/RWMutex become a
//     TryLock-and-yield loop so a task never blocks an OS thread;
//  3. map seam: every `for k, v := range m` over a map (go/types) is rewritten
//     to a generated, typed iterator whose order is decided by verifrt.
//
// The build never fails because of the rewriter: sites it cannot handle are
// left alone and counted in the report.
package main

import (
	"bytes"
	"encoding/json"
	"flag"
	"fmt"
	"go/ast"
	"go/format"
	"go/printer"
	"go/token"
	"go/types"
	"os"
	"path/filepath"
	"sort"
	"strings"

	"golang.org/x/tools/go/ast/astutil"
	"golang.org/x/tools/go/packages"
)

const orbPath = "github.com/paulmach/orb"
const rtPath = orbPath + "/verifrt"

type report struct {
	YieldSites     int            `json:"yield_sites"`
	YieldPerPkg    map[string]int `json:"yield_sites_per_package"`
	LockRewrites   int            `json:"lock_rewrites"`
	PoolRewrites   int            `json:"sync_pool_rewrites"`
	MapSites       []string       `json:"map_range_sites"`
	Unseamed       []string       `json:"unseamed_map_ranges"`
	FilesRewritten []string       `json:"files_rewritten"`
}

type mapSite struct {
	id      int
	keyT    string
	valT    string
	pos     string
	imports map[string]string // path -> name
}

func main() {
	dir := flag.String("dir", "", "repository copy to instrument in place")
	rep := flag.String("report", "", "json report path")
	yieldPkgs := flag.String("yield", ".,quadtree,planar", "packages (relative) to get statement yields; \".\" is the root package orb")
	analyzeOnly := flag.Bool("analyze", false, "only write verifrt/zz_fields.go (fields that are never read by library code), rewrite nothing")
	mapPkgs := flag.String("maps", "encoding/mvt,geojson,maptile,maptile/tilecover,quadtree,planar", "packages (relative) to get the map seam")
	flag.Parse()
	if *dir == "" {
		fmt.Fprintln(os.Stderr, "instr: -dir required")
		os.Exit(2)
	}
	r := &report{YieldPerPkg: map[string]int{}}
	yp := map[string]bool{}
	mp := map[string]bool{}
	var patterns []string
	for _, p := range strings.Split(*yieldPkgs, ",") {
		if p == "." {
			yp[orbPath] = true
			patterns = append(patterns, ".")
		} else if p != "" {
			yp[orbPath+"/"+p] = true
			patterns = append(patterns, "./"+p)
		}
	}
	for _, p := range strings.Split(*mapPkgs, ",") {
		if p != "" {
			mp[orbPath+"/"+p] = true
			patterns = append(patterns, "./"+p)
		}
	}
	cfg := &packages.Config{
		Mode: packages.NeedName | packages.NeedFiles | packages.NeedSyntax | packages.NeedTypes | packages.NeedTypesInfo | packages.NeedImports | packages.NeedDeps | packages.NeedCompiledGoFiles,
		Dir:  *dir,
		Env:  append(os.Environ(), "GOFLAGS=-mod=mod", "GOPROXY=off", "GOSUMDB=off", "GOTOOLCHAIN=local"),
	}
	pkgs, err := packages.Load(cfg, patterns...)
	if err != nil {
		fmt.Fprintln(os.Stderr, "instr: load:", err)
		os.Exit(2)
	}
	writeCounterFields(*dir, pkgs, yp)
	if *analyzeOnly {
		return
	}
	site := 0
	mapID := 0
	for _, pkg := range pkgs {
		if len(pkg.Errors) > 0 {
			fmt.Fprintln(os.Stderr, "instr: package", pkg.PkgPath, "has errors:", pkg.Errors[0])
			os.Exit(2)
		}
		var sites []*mapSite
		for i, f := range pkg.Syntax {
			fname := pkg.CompiledGoFiles[i]
			if strings.HasSuffix(fname, "_test.go") {
				continue
			}
			changed := false
			needImport := false
			hasGoto := map[*ast.FuncDecl]bool{}
			if mp[pkg.PkgPath] {
				// functions containing goto are left alone
				for _, d := range f.Decls {
					if fd, ok := d.(*ast.FuncDecl); ok && fd.Body != nil {
						ast.Inspect(fd.Body, func(n ast.Node) bool {
							if b, ok := n.(*ast.BranchStmt); ok && b.Tok == token.GOTO {
								hasGoto[fd] = true
							}
							return true
						})
					}
				}
				for _, d := range f.Decls {
					fd, ok := d.(*ast.FuncDecl)
					if !ok || fd.Body == nil {
						continue
					}
					astutil.Apply(fd.Body, func(c *astutil.Cursor) bool {
						rs, ok := c.Node().(*ast.RangeStmt)
						if !ok {
							return true
						}
						tv, ok := pkg.TypesInfo.Types[rs.X]
						if !ok {
							return true
						}
						mt, ok := tv.Type.Underlying().(*types.Map)
						if !ok {
							return true
						}
						pos := pkg.Fset.Position(rs.Pos())
						where := fmt.Sprintf("%s:%d", rel(*dir, pos.Filename), pos.Line)
						if hasGoto[fd] {
							r.Unseamed = append(r.Unseamed, where+" (function uses goto)")
							return true
						}
						if !stableKey(mt.Key()) {
							r.Unseamed = append(r.Unseamed, where+" (key type has no run-stable order)")
							return true
						}
						if capturesLoopVars(rs) {
							r.Unseamed = append(r.Unseamed, where+" (loop variables captured by a closure or address-taken)")
							return true
						}
						mapID++
						ms := &mapSite{id: mapID, pos: where, imports: map[string]string{}}
						q := func(p *types.Package) string {
							if p.Path() == pkg.PkgPath {
								return ""
							}
							ms.imports[p.Path()] = p.Name()
							return p.Name()
						}
						ms.keyT = types.TypeString(mt.Key(), q)
						ms.valT = types.TypeString(mt.Elem(), q)
						sites = append(sites, ms)
						c.Replace(rewriteRange(rs, ms.id))
						r.MapSites = append(r.MapSites, where)
						changed = true
						return true
					}, nil)
				}
			}
			if yp[pkg.PkgPath] || mp[pkg.PkgPath] {
				// sync.Pool seam: p.Get() / p.Put(x) -> verifrt.PoolGet(&p) / verifrt.PoolPut(&p, x)
				astutil.Apply(f, func(c *astutil.Cursor) bool {
					call, ok := c.Node().(*ast.CallExpr)
					if !ok {
						return true
					}
					sel, ok := call.Fun.(*ast.SelectorExpr)
					if !ok || (sel.Sel.Name != "Get" && sel.Sel.Name != "Put") {
						return true
					}
					isPtr, isPool := syncPool(pkg.TypesInfo, sel.X)
					if !isPool {
						return true
					}
					var recv ast.Expr = sel.X
					if !isPtr {
						recv = &ast.UnaryExpr{Op: token.AND, X: sel.X}
					}
					name := "PoolGet"
					if sel.Sel.Name == "Put" {
						name = "PoolPut"
					}
					c.Replace(&ast.CallExpr{Fun: &ast.SelectorExpr{X: ast.NewIdent("verifrt"), Sel: ast.NewIdent(name)}, Args: append([]ast.Expr{recv}, call.Args...)})
					r.PoolRewrites++
					changed = true
					needImport = true
					return false
				}, nil)
			}
			if yp[pkg.PkgPath] {
				n0 := site
				// lock rewrite first (it produces statements that then get yields too)
				astutil.Apply(f, func(c *astutil.Cursor) bool {
					es, ok := c.Node().(*ast.ExprStmt)
					if !ok {
						return true
					}
					call, ok := es.X.(*ast.CallExpr)
					if !ok || len(call.Args) != 0 {
						return true
					}
					sel, ok := call.Fun.(*ast.SelectorExpr)
					if !ok || (sel.Sel.Name != "Lock" && sel.Sel.Name != "RLock") {
						return true
					}
					if !isSyncMutex(pkg.TypesInfo, sel) {
						return true
					}
					try := "TryLock"
					if sel.Sel.Name == "RLock" {
						try = "TryRLock"
					}
					r.LockRewrites++
					needImport = true
					c.Replace(&ast.ForStmt{
						Cond: &ast.UnaryExpr{Op: token.NOT, X: &ast.CallExpr{Fun: &ast.SelectorExpr{X: sel.X, Sel: ast.NewIdent(try)}}},
						Body: &ast.BlockStmt{List: []ast.Stmt{&ast.ExprStmt{X: &ast.CallExpr{
							Fun: &ast.SelectorExpr{X: ast.NewIdent("verifrt"), Sel: ast.NewIdent("SpinYield")}}}}},
					})
					changed = true
					return false
				}, nil)
				for _, d := range f.Decls {
					if fd, ok := d.(*ast.FuncDecl); ok && fd.Body != nil {
						insertYields(fd.Body, &site)
					}
				}
				if site != n0 {
					changed = true
					needImport = true
					r.YieldSites += site - n0
					r.YieldPerPkg[strings.TrimPrefix(strings.TrimPrefix(pkg.PkgPath, orbPath), "/")+"."] += site - n0
				}
			}
			if !changed {
				continue
			}
			if needImport {
				astutil.AddImport(pkg.Fset, f, rtPath)
			}
			// drop every comment after the package clause so that a re-positioned
			// comment can never swallow code
			var keep []*ast.CommentGroup
			for _, cg := range f.Comments {
				if cg.End() < f.Package {
					keep = append(keep, cg)
				}
			}
			f.Comments = keep
			var buf bytes.Buffer
			if err := (&printer.Config{Mode: printer.UseSpaces | printer.TabIndent, Tabwidth: 8}).Fprint(&buf, pkg.Fset, f); err != nil {
				fmt.Fprintln(os.Stderr, "instr: print:", err)
				os.Exit(2)
			}
			src, err := format.Source(buf.Bytes())
			if err != nil {
				fmt.Fprintln(os.Stderr, "instr: format", fname, err)
				os.Exit(2)
			}
			if err := os.WriteFile(fname, src, 0o644); err != nil {
				fmt.Fprintln(os.Stderr, "instr:", err)
				os.Exit(2)
			}
			r.FilesRewritten = append(r.FilesRewritten, rel(*dir, fname))
		}
		if len(sites) > 0 {
			src := genIterators(pkg.Name, sites)
			out := filepath.Join(filepath.Dir(pkg.CompiledGoFiles[0]), "zz_verifrt_gen.go")
			fsrc, err := format.Source([]byte(src))
			if err != nil {
				fmt.Fprintln(os.Stderr, "instr: generated iterators do not parse:", err, "\n", src)
				os.Exit(2)
			}
			if err := os.WriteFile(out, fsrc, 0o644); err != nil {
				fmt.Fprintln(os.Stderr, "instr:", err)
				os.Exit(2)
			}
		}
	}
	sort.Strings(r.MapSites)
	sort.Strings(r.Unseamed)
	sort.Strings(r.FilesRewritten)
	if *rep != "" {
		b, _ := json.MarshalIndent(r, "", " ")
		os.WriteFile(*rep, b, 0o644)
	}
	fmt.Printf("instr: %d yield sites, %d lock rewrites, %d map-range sites seamed, %d left alone\n", r.YieldSites, r.LockRewrites, len(r.MapSites), len(r.Unseamed))
}

func rel(dir, f string) string {
	if r, err := filepath.Rel(dir, f); err == nil {
		return r
	}
	return f
}

// syncPool reports whether e has type sync.Pool or *sync.Pool.
func syncPool(info *types.Info, e ast.Expr) (isPtr, isPool bool) {
	tv, ok := info.Types[e]
	if !ok {
		return false, false
	}
	t := tv.Type
	if p, ok := t.(*types.Pointer); ok {
		t, isPtr = p.Elem(), true
	}
	n, ok := t.(*types.Named)
	if !ok || n.Obj().Pkg() == nil {
		return false, false
	}
	return isPtr, n.Obj().Pkg().Path() == "sync" && n.Obj().Name() == "Pool"
}

func isSyncMutex(info *types.Info, sel *ast.SelectorExpr) bool {
	tv, ok := info.Types[sel.X]
	if !ok {
		return false
	}
	t := tv.Type
	if p, ok := t.(*types.Pointer); ok {
		t = p.Elem()
	}
	n, ok := t.(*types.Named)
	if !ok || n.Obj().Pkg() == nil {
		return false
	}
	return n.Obj().Pkg().Path() == "sync" && (n.Obj().Name() == "Mutex" || n.Obj().Name() == "RWMutex")
}

// stableKey: key types whose %#v rendering does not depend on addresses.
func stableKey(t types.Type) bool {
	switch u := t.Underlying().(type) {
	case *types.Basic:
		return u.Kind() != types.UnsafePointer && u.Info()&types.IsFloat == 0 && u.Info()&types.IsComplex == 0
	case *types.Struct:
		for i := 0; i < u.NumFields(); i++ {
			if !stableKey(u.Field(i).Type()) {
				return false
			}
		}
		return true
	case *types.Array:
		return stableKey(u.Elem())
	}
	return false
}

func capturesLoopVars(rs *ast.RangeStmt) bool {
	names := map[string]bool{}
	for _, e := range []ast.Expr{rs.Key, rs.Value} {
		if id, ok := e.(*ast.Ident); ok && id.Name != "_" {
			names[id.Name] = true
		}
	}
	if len(names) == 0 {
		return false
	}
	bad := false
	ast.Inspect(rs.Body, func(n ast.Node) bool {
		switch x := n.(type) {
		case *ast.FuncLit:
			ast.Inspect(x.Body, func(m ast.Node) bool {
				if id, ok := m.(*ast.Ident); ok && names[id.Name] {
					bad = true
				}
				return true
			})
		case *ast.UnaryExpr:
			if x.Op == token.AND {
				if id, ok := x.X.(*ast.Ident); ok && names[id.Name] {
					bad = true
				}
			}
		}
		return true
	})
	return bad
}

// rewriteRange turns `for k, v := range m { body }` into
// `for it := verifrtRangeN(m); it.next(); { k, v := it.k, it.v; body }`.
// A single statement, so an enclosing label stays valid; `continue` re-evaluates
// the condition. Loop variables become per-iteration, which is unobservable
// because loops whose variables are captured or address-taken are excluded.
func rewriteRange(rs *ast.RangeStmt, id int) ast.Stmt {
	it := ast.NewIdent(fmt.Sprintf("verifrtIt%d", id))
	var lhs, rhs []ast.Expr
	if k, ok := rs.Key.(*ast.Ident); rs.Key != nil && (!ok || k.Name != "_") {
		lhs = append(lhs, rs.Key)
		rhs = append(rhs, &ast.SelectorExpr{X: it, Sel: ast.NewIdent("k")})
	}
	if v, ok := rs.Value.(*ast.Ident); rs.Value != nil && (!ok || v.Name != "_") {
		lhs = append(lhs, rs.Value)
		rhs = append(rhs, &ast.SelectorExpr{X: it, Sel: ast.NewIdent("v")})
	}
	body := &ast.BlockStmt{}
	if len(lhs) > 0 {
		tok := rs.Tok
		if tok == token.ILLEGAL {
			tok = token.DEFINE
		}
		body.List = append(body.List, &ast.AssignStmt{Lhs: lhs, Tok: tok, Rhs: rhs})
		if tok == token.DEFINE {
			// avoid "declared and not used" for variables the body ignores
			for _, l := range lhs {
				body.List = append(body.List, &ast.AssignStmt{Lhs: []ast.Expr{ast.NewIdent("_")}, Tok: token.ASSIGN, Rhs: []ast.Expr{l}})
			}
		}
	}
	body.List = append(body.List, rs.Body.List...)
	return &ast.ForStmt{
		Init: &ast.AssignStmt{Lhs: []ast.Expr{it}, Tok: token.DEFINE, Rhs: []ast.Expr{&ast.CallExpr{Fun: ast.NewIdent(fmt.Sprintf("verifrtRange%d", id)), Args: []ast.Expr{rs.X}}}},
		Cond: &ast.CallExpr{Fun: &ast.SelectorExpr{X: it, Sel: ast.NewIdent("next")}},
		Body: body,
	}
}

func genIterators(pkgName string, sites []*mapSite) string {
	var sb strings.Builder
	imports := map[string]string{rtPath: "verifrt"}
	for _, s := range sites {
		for p, n := range s.imports {
			imports[p] = n
		}
	}
	fmt.Fprintf(&sb, "// Code generated by /verif/instr. DO NOT EDIT.\n\npackage %s\n\nimport (\n", pkgName)
	var paths []string
	for p := range imports {
		paths = append(paths, p)
	}
	sort.Strings(paths)
	for _, p := range paths {
		fmt.Fprintf(&sb, "\t%s %q\n", imports[p], p)
	}
	sb.WriteString(")\n")
	for _, s := range sites {
		fmt.Fprintf(&sb, `
// %[4]s
type verifrtIter%[1]d struct {
	verifrt.MapIter
	m map[%[2]s]%[3]s
	k %[2]s
	v %[3]s
}

func verifrtRange%[1]d(m map[%[2]s]%[3]s) *verifrtIter%[1]d {
	it := &verifrtIter%[1]d{m: m}
	keys := make([]interface{}, 0, len(m))
	for k := range m {
		keys = append(keys, k)
	}
	it.Init(%[1]d, %[4]q, keys)
	return it
}

func (it *verifrtIter%[1]d) next() bool {
	for {
		if len(it.m) < it.Len {
			// entries were deleted (the clear idiom deletes one per iteration): nothing new to look for.
			// An insertion hidden behind the deletions is not produced, which the language allows.
			it.Len = len(it.m)
		}
		if it.Len != len(it.m) {
			var fresh []interface{}
			for k := range it.m {
				if !it.Seen(k) {
					fresh = append(fresh, k)
				}
			}
			it.Created(fresh, len(it.m))
		}
		k, ok := it.Next()
		if !ok {
			return false
		}
		kk := k.(%[2]s)
		v, present := it.m[kk]
		if !present {
			continue
		}
		it.k, it.v = kk, v
		return true
	}
}
`, s.id, s.keyT, s.valT, s.pos)
	}
	return sb.String()
}

// insertYields puts verifrt.Yield(n) before every statement of every
// statement list under n (function literals included).
func insertYields(body *ast.BlockStmt, site *int) {
	yield := func() ast.Stmt {
		*site++
		return &ast.ExprStmt{X: &ast.CallExpr{
			Fun:  &ast.SelectorExpr{X: ast.NewIdent("verifrt"), Sel: ast.NewIdent("Yield")},
			Args: []ast.Expr{&ast.BasicLit{Kind: token.INT, Value: fmt.Sprint(*site)}},
		}}
	}
	withYields := func(list []ast.Stmt) []ast.Stmt {
		out := make([]ast.Stmt, 0, 2*len(list))
		for _, s := range list {
			out = append(out, yield(), s)
		}
		return out
	}
	var walk func(n ast.Node)
	walkList := func(list []ast.Stmt) {
		for _, s := range list {
			walk(s)
		}
	}
	walk = func(n ast.Node) {
		switch x := n.(type) {
		case nil:
		case *ast.BlockStmt:
			if x == nil {
				return
			}
			walkList(x.List)
			x.List = withYields(x.List)
		case *ast.IfStmt:
			walk(x.Body)
			if x.Else != nil {
				walk(x.Else)
			}
			walkExprs(x.Init, x.Cond, walk)
		case *ast.ForStmt:
			walk(x.Body)
		case *ast.RangeStmt:
			walk(x.Body)
		case *ast.SwitchStmt:
			// the body of a switch is a list of clauses, not statements
			for _, c := range x.Body.List {
				cc := c.(*ast.CaseClause)
				walkList(cc.Body)
				cc.Body = withYields(cc.Body)
			}
		case *ast.TypeSwitchStmt:
			for _, c := range x.Body.List {
				cc := c.(*ast.CaseClause)
				walkList(cc.Body)
				cc.Body = withYields(cc.Body)
			}
		case *ast.SelectStmt:
			for _, c := range x.Body.List {
				cc := c.(*ast.CommClause)
				walkList(cc.Body)
				cc.Body = withYields(cc.Body)
			}
		case *ast.LabeledStmt:
			walk(x.Stmt)
		default:
			// statements that may contain function literals
			ast.Inspect(n, func(m ast.Node) bool {
				if fl, ok := m.(*ast.FuncLit); ok {
					walk(fl.Body)
					return false
				}
				return true
			})
		}
	}
	walk(body)
}

func walkExprs(init ast.Stmt, cond ast.Expr, walk func(ast.Node)) {
	for _, n := range []ast.Node{init, cond} {
		if n == nil {
			continue
		}
		ast.Inspect(n, func(m ast.Node) bool {
			if fl, ok := m.(*ast.FuncLit); ok {
				walk(fl.Body)
				return false
			}
			return true
		})
	}
}

// writeCounterFields finds integer struct fields of the yield packages that
// library code only ever increments (x.f++, x.f += c, atomic.AddXxx(&x.f, c))
// or hands out through a getter whose body is a single return statement. Such
// a field cannot influence any answer: nobody reads it. The tree-image oracle
// leaves exactly these fields out (usage counters); every other field,
// including one that is loaded anywhere else, stays part of the image.
func writeCounterFields(dir string, pkgs []*packages.Package, yp map[string]bool) {
	bad := map[*types.Var]bool{}
	getters := map[*types.Func][]*types.Var{}
	used := map[*types.Var]bool{}
	owner := map[*types.Var]string{}
	for _, pkg := range pkgs {
		if !yp[pkg.PkgPath] || len(pkg.Errors) > 0 {
			continue
		}
		scope := pkg.Types.Scope()
		for _, name := range scope.Names() {
			tn, ok := scope.Lookup(name).(*types.TypeName)
			if !ok {
				continue
			}
			st, ok := tn.Type().Underlying().(*types.Struct)
			if !ok {
				continue
			}
			for i := 0; i < st.NumFields(); i++ {
				f := st.Field(i)
				if b, ok := f.Type().Underlying().(*types.Basic); ok && b.Info()&types.IsInteger != 0 {
					owner[f] = pkg.PkgPath + "." + tn.Name() + "." + f.Name()
				}
			}
		}
		for i, file := range pkg.Syntax {
			if strings.HasSuffix(pkg.CompiledGoFiles[i], "_test.go") {
				continue
			}
			var stack []ast.Node
			ast.Inspect(file, func(n ast.Node) bool {
				if n == nil {
					stack = stack[:len(stack)-1]
					return true
				}
				stack = append(stack, n)
				sel, ok := n.(*ast.SelectorExpr)
				if !ok {
					return true
				}
				v, ok := pkg.TypesInfo.Uses[sel.Sel].(*types.Var)
				if !ok || owner[v] == "" {
					return true
				}
				used[v] = true
				ok, getter := counterUse(pkg.TypesInfo, stack)
				if !ok {
					bad[v] = true
				} else if getter {
					// remember the getter: the field only stays a pure counter if library code never calls it
					for i := len(stack) - 1; i >= 0; i-- {
						if fd, isFn := stack[i].(*ast.FuncDecl); isFn {
							if fo, isObj := pkg.TypesInfo.Defs[fd.Name].(*types.Func); isObj {
								getters[fo] = append(getters[fo], v)
							}
							break
						}
					}
				}
				return true
			})
		}
	}
	for _, pkg := range pkgs {
		if len(pkg.Errors) > 0 {
			continue
		}
		for i, file := range pkg.Syntax {
			if strings.HasSuffix(pkg.CompiledGoFiles[i], "_test.go") {
				continue
			}
			ast.Inspect(file, func(n ast.Node) bool {
				if id, ok := n.(*ast.Ident); ok {
					if fo, ok := pkg.TypesInfo.Uses[id].(*types.Func); ok {
						for _, v := range getters[fo] {
							bad[v] = true // the library itself reads the counter through its getter
						}
					}
				}
				return true
			})
		}
	}
	var keys []string
	for v, k := range owner {
		if used[v] && !bad[v] {
			keys = append(keys, k)
		}
	}
	sort.Strings(keys)
	var sb strings.Builder
	sb.WriteString("// Code generated by /verif/instr. DO NOT EDIT.\n\npackage verifrt\n\nfunc init() {\n\tCounterOnlyFields = map[string]bool{\n")
	for _, k := range keys {
		fmt.Fprintf(&sb, "\t\t%q: true,\n", k)
	}
	sb.WriteString("\t}\n}\n")
	os.WriteFile(filepath.Join(dir, "verifrt", "zz_fields.go"), []byte(sb.String()), 0o644)
	if len(keys) > 0 {
		fmt.Printf("instr: counter-only fields (left out of the tree image): %v\n", keys)
	}
}

// counterUse reports whether the selector on top of the stack is used as a pure counter.
func counterUse(info *types.Info, stack []ast.Node) (ok, viaGetter bool) {
	n := len(stack)
	sel := stack[n-1]
	parent := func(i int) ast.Node {
		if n-1-i >= 0 {
			return stack[n-1-i]
		}
		return nil
	}
	isAtomic := func(call *ast.CallExpr, prefix string) bool {
		fn, ok := call.Fun.(*ast.SelectorExpr)
		if !ok || !strings.HasPrefix(fn.Sel.Name, prefix) {
			return false
		}
		id, ok := fn.X.(*ast.Ident)
		if !ok {
			return false
		}
		pn, ok := info.Uses[id].(*types.PkgName)
		return ok && pn.Imported().Path() == "sync/atomic"
	}
	soleReturn := func(ret ast.Node, i int) bool {
		// ret is stack[n-1-i]; it must be the only statement of a function body
		if _, ok := ret.(*ast.ReturnStmt); !ok {
			return false
		}
		blk, ok := parent(i + 1).(*ast.BlockStmt)
		if !ok || len(blk.List) != 1 {
			return false
		}
		_, isFunc := parent(i + 2).(*ast.FuncDecl)
		return isFunc
	}
	switch p := parent(1).(type) {
	case *ast.IncDecStmt:
		return p.X == sel, false
	case *ast.AssignStmt:
		if p.Tok == token.ADD_ASSIGN || p.Tok == token.SUB_ASSIGN {
			for _, l := range p.Lhs {
				if l == sel {
					return true, false
				}
			}
		}
		return false, false
	case *ast.UnaryExpr:
		if p.Op != token.AND {
			return false, false
		}
		call, ok := parent(2).(*ast.CallExpr)
		if !ok || len(call.Args) == 0 || call.Args[0] != ast.Expr(p) {
			return false, false
		}
		if isAtomic(call, "Add") {
			return true, false
		}
		if isAtomic(call, "Load") {
			// a getter: `return atomic.LoadInt64(&x.f)`, or a snapshot getter whose single
			// return statement builds a value out of such loads (`return stats{a: atomic.Load..(&x.a), ...}`)
			i := 3
			for {
				switch q := parent(i).(type) {
				case *ast.KeyValueExpr, *ast.CompositeLit:
					i++
					continue
				case *ast.UnaryExpr:
					if q.Op == token.AND {
						i++
						continue
					}
				}
				break
			}
			return soleReturn(parent(i), i), true
		}
		return false, false
	case *ast.ReturnStmt:
		return soleReturn(p, 1), true // a getter: `return x.f`
	}
	return false, false
}
